#!/usr/bin/env python3
"""Generates kernel_K.contracts: model K of the raw system calls issued by the child
between clone and exec (trusted; written from the man pages, see DESIGN Appendix A).
syscall.RawSyscall and syscall.RawSyscall6 get the same cases."""
import os
HERE = os.path.dirname(os.path.abspath(__file__))

GHOST = """
# ---- ghost state of the child process (model K) ----
ghost K.fdt map[int]int          # descriptor -> open file id (0 = closed)
ghost K.clo map[int]bool         # descriptor -> close-on-exec
ghost K.pid uintptr
ghost K.secbits uintptr
ghost K.caps_empty bool
ghost K.nnp bool
ghost K.filter uintptr               # address of the installed seccomp program (0 = none)
ghost K.filter_flags uintptr
ghost K.uid uintptr
ghost K.uid_set bool
ghost K.gid uintptr
ghost K.gid_set bool
ghost K.groups_set bool
ghost K.ngroups uintptr
ghost K.groups_ptr uintptr
ghost K.sid_new bool
ghost K.ctty bool
ghost K.cwd uintptr                  # address of the last successful chdir path
ghost K.host uintptr
ghost K.hostlen uintptr
ghost K.host_issued bool
ghost K.domain uintptr
ghost K.domainlen uintptr
ghost K.domain_issued bool
ghost K.clone_flags uintptr
ghost K.clone3 bool
ghost K.clone_cgroup uintptr
ghost K.mnt_src map[uintptr]uintptr      # target address -> source of the last successful non-remount mount
ghost K.mnt_type map[uintptr]uintptr
ghost K.mnt_flags map[uintptr]uintptr
ghost K.mnt_data map[uintptr]uintptr
ghost K.mnt_done map[uintptr]bool
ghost K.remount map[uintptr]uintptr      # target address -> flags of the last successful remount
ghost K.remount_done map[uintptr]bool
ghost K.nmount int
ghost K.pivoted bool
ghost K.pivot_new uintptr
ghost K.pivot_old uintptr
ghost K.old_detached bool
ghost K.old_removed bool
ghost K.rl_cur map[int]uint64
ghost K.rl_max map[int]uint64
ghost K.rl_set map[int]bool
ghost K.traceme bool
ghost K.stopped_self bool
ghost K.sync_stage int               # 0 none, 1 ready word written, 2 ack read after it
ghost K.sync_wfile int
ghost K.sync_rfile int
ghost K.idmap_read bool
ghost K.idmap_status uintptr     # the status word the parent sent after writing the id maps (first word read before the sync)
ghost K.unshare_cgroup_issued bool
ghost K.last_trap uintptr            # the last system call issued and its errno
ghost K.last_errno uintptr
ghost K.reported_loc int
ghost K.reported_err uintptr
ghost K.reported_idx int
ghost K.reported bool
ghost K.exec_attempts int
"""

ALL_GHOST = [l.split()[1] for l in GHOST.strip().split("\n") if l.startswith("ghost ")]

# (trap number, name, assigns (besides last_trap/last_errno), list of ensures)
CASES = [
 (3, "close", ["K.fdt"], [
   "K.fdt == old(K.fdt)[int(a1) := 0]"]),                       # Linux releases the slot whatever close returns
 (0, "read", ["K.sync_stage", "K.sync_rfile", "K.idmap_read", "K.idmap_status", "deref_as(ptr(a2), syscall.Errno)"], [
   "err == 0 && r1 == 8 && a3 == 8 && old(K.sync_stage) == 0 && !old(K.idmap_read) ==> K.idmap_status == uintptr(deref_as(ptr(a2), syscall.Errno))",
   "!(err == 0 && r1 == 8 && a3 == 8 && old(K.sync_stage) == 0 && !old(K.idmap_read)) ==> K.idmap_status == old(K.idmap_status)",
   "err == 0 && r1 != 0 && old(K.sync_stage) == 1 ==> K.sync_stage == 2 && K.sync_rfile == K.fdt[int(a1)]",
   "!(err == 0 && r1 != 0 && old(K.sync_stage) == 1) ==> K.sync_stage == old(K.sync_stage) && K.sync_rfile == old(K.sync_rfile)",
   "K.idmap_read == (old(K.idmap_read) || (err == 0 && old(K.sync_stage) == 0))",
   "err == 0 ==> r1 <= a3"]),
 (1, "write", ["K.sync_stage", "K.sync_wfile"], [
   "err == 0 && r1 != 0 && old(K.sync_stage) == 0 ==> K.sync_stage == 1 && K.sync_wfile == K.fdt[int(a1)]",
   "!(err == 0 && r1 != 0 && old(K.sync_stage) == 0) ==> K.sync_stage == old(K.sync_stage) && K.sync_wfile == old(K.sync_wfile)",
   "err == 0 ==> r1 <= a3"]),
 (39, "getpid", [], ["err == 0 ==> r1 == K.pid"]),
 (157, "prctl", ["K.secbits", "K.nnp"], [
   "err == 0 && a1 == 28 ==> K.secbits == a2",
   "!(err == 0 && a1 == 28) ==> K.secbits == old(K.secbits)",
   "err == 0 && a1 == 38 && a2 == 1 ==> K.nnp",
   "!(err == 0 && a1 == 38 && a2 == 1) ==> K.nnp == old(K.nnp)"]),
 (116, "setgroups", ["K.groups_set", "K.ngroups", "K.groups_ptr"], [
   "err == 0 ==> K.groups_set && K.ngroups == a1 && K.groups_ptr == a2",
   "err != 0 ==> K.groups_set == old(K.groups_set) && K.ngroups == old(K.ngroups) && K.groups_ptr == old(K.groups_ptr)"]),
 (106, "setgid", ["K.gid", "K.gid_set"], [
   "err == 0 ==> K.gid == a1 && K.gid_set", "err != 0 ==> K.gid == old(K.gid) && K.gid_set == old(K.gid_set)"]),
 (105, "setuid", ["K.uid", "K.uid_set"], [
   "err == 0 ==> K.uid == a1 && K.uid_set", "err != 0 ==> K.uid == old(K.uid) && K.uid_set == old(K.uid_set)"]),
 (292, "dup3", ["K.fdt", "K.clo"], [
   "err == 0 ==> a1 != a2 && old(K.fdt)[int(a1)] != 0",
   "err == 0 ==> K.fdt == old(K.fdt)[int(a2) := old(K.fdt)[int(a1)]] && K.clo == old(K.clo)[int(a2) := (a3 & 524288 != 0)]",
   "err != 0 ==> K.fdt == old(K.fdt) && K.clo == old(K.clo)"]),
 (72, "fcntl", ["K.clo"], [
   "err == 0 && a2 == 2 ==> old(K.fdt)[int(a1)] != 0 && K.clo == old(K.clo)[int(a1) := (a3 & 1 != 0)]",
   "!(err == 0 && a2 == 2) ==> K.clo == old(K.clo)"]),
 (112, "setsid", ["K.sid_new"], ["err == 0 ==> K.sid_new", "err != 0 ==> K.sid_new == old(K.sid_new)"]),
 (16, "ioctl", ["K.ctty"], ["err == 0 && a2 == 21518 ==> K.ctty", "!(err == 0 && a2 == 21518) ==> K.ctty == old(K.ctty)"]),
 (165, "mount", ["K.mnt_src", "K.mnt_type", "K.mnt_flags", "K.mnt_data", "K.mnt_done", "K.remount", "K.remount_done", "K.nmount"], [
   # a1 source, a2 target, a3 fstype, a4 flags, a5 data; MS_REMOUNT = 32
   "err == 0 && a4 & 32 == 0 ==> K.mnt_src == old(K.mnt_src)[a2 := a1] && K.mnt_type == old(K.mnt_type)[a2 := a3] && K.mnt_flags == old(K.mnt_flags)[a2 := a4] && K.mnt_data == old(K.mnt_data)[a2 := a5] && K.mnt_done == old(K.mnt_done)[a2 := true] && K.nmount == old(K.nmount) + 1",
   "!(err == 0 && a4 & 32 == 0) ==> K.mnt_src == old(K.mnt_src) && K.mnt_type == old(K.mnt_type) && K.mnt_flags == old(K.mnt_flags) && K.mnt_data == old(K.mnt_data) && K.mnt_done == old(K.mnt_done) && K.nmount == old(K.nmount)",
   "err == 0 && a4 & 32 != 0 ==> K.remount == old(K.remount)[a2 := a4] && K.remount_done == old(K.remount_done)[a2 := true]",
   "!(err == 0 && a4 & 32 != 0) ==> K.remount == old(K.remount) && K.remount_done == old(K.remount_done)"]),
 (80, "chdir", ["K.cwd"], ["err == 0 ==> K.cwd == a1", "err != 0 ==> K.cwd == old(K.cwd)"]),
 (258, "mkdirat", [], []),
 (259, "mknodat", [], []),
 (137, "statfs", ["deref(ref_as(ptr(a2), syscall.Statfs_t))"], []),
 (155, "pivot_root", ["K.pivoted", "K.pivot_new", "K.pivot_old"], [
   "err == 0 ==> K.pivoted && K.pivot_new == a1 && K.pivot_old == a2",
   "err != 0 ==> K.pivoted == old(K.pivoted) && K.pivot_new == old(K.pivot_new) && K.pivot_old == old(K.pivot_old)"]),
 (166, "umount2", ["K.old_detached"], [
   "err == 0 && a2 == 2 && K.pivoted && a1 == K.pivot_old ==> K.old_detached",
   "!(err == 0 && a2 == 2 && K.pivoted && a1 == K.pivot_old) ==> K.old_detached == old(K.old_detached)"]),
 (263, "unlinkat", ["K.old_removed"], [
   "err == 0 && a3 == 512 && K.old_detached && a2 == K.pivot_old ==> K.old_removed",
   "!(err == 0 && a3 == 512 && K.old_detached && a2 == K.pivot_old) ==> K.old_removed == old(K.old_removed)"]),
 (170, "sethostname", ["K.host", "K.hostlen", "K.host_issued"], ["K.host == a1 && K.hostlen == a2 && K.host_issued"]),
 (171, "setdomainname", ["K.domain", "K.domainlen", "K.domain_issued"], ["K.domain == a1 && K.domainlen == a2 && K.domain_issued"]),
 (302, "prlimit64", ["K.rl_cur", "K.rl_max", "K.rl_set"], [
   "err == 0 && a3 != 0 ==> K.rl_cur == old(K.rl_cur)[int(a2) := deref_as(ptr(a3), syscall.Rlimit).Cur] && K.rl_max == old(K.rl_max)[int(a2) := deref_as(ptr(a3), syscall.Rlimit).Max] && K.rl_set == old(K.rl_set)[int(a2) := true]",
   "!(err == 0 && a3 != 0) ==> K.rl_cur == old(K.rl_cur) && K.rl_max == old(K.rl_max) && K.rl_set == old(K.rl_set)"]),
 (126, "capset", ["K.caps_empty"], [
   "err == 0 ==> K.caps_empty == (deref_as(ptr(a1), unix.CapUserHeader).Version == 537396514 && deref_as(ptr(a1), unix.CapUserHeader).Pid == 0 && deref_as(ptr(a2), unix.CapUserData).Effective == 0 && deref_as(ptr(a2), unix.CapUserData).Permitted == 0 && deref_as(ptr(a2), unix.CapUserData).Inheritable == 0)",
   "err != 0 ==> K.caps_empty == old(K.caps_empty)"]),
 (272, "unshare", ["K.unshare_cgroup_issued"], ["K.unshare_cgroup_issued == (old(K.unshare_cgroup_issued) || a1 == 33554432)"]),
 (101, "ptrace", ["K.traceme"], ["err == 0 && a1 == 0 ==> K.traceme", "!(err == 0 && a1 == 0) ==> K.traceme == old(K.traceme)"]),
 (62, "kill", ["K.stopped_self"], [
   "err == 0 && a2 == 19 && a1 == K.pid ==> K.stopped_self",
   "!(err == 0 && a2 == 19 && a1 == K.pid) ==> K.stopped_self == old(K.stopped_self)"]),
 (317, "seccomp", ["K.filter", "K.filter_flags"], [
   "err == 0 && a1 == 1 ==> K.filter == a3 && K.filter_flags == a2",
   "!(err == 0 && a1 == 1) ==> K.filter == old(K.filter) && K.filter_flags == old(K.filter_flags)"]),
 (59, "execve", ["K.exec_attempts"], ["err != 0", "K.exec_attempts == old(K.exec_attempts) + 1"]),   # returns only on failure
 (322, "execveat", ["K.exec_attempts"], ["err != 0", "K.exec_attempts == old(K.exec_attempts) + 1"]),
 (35, "nanosleep", [], []),
 (60, "exit", [], ["false"]),                                                # never returns
]

def emit(fn, params):
    out = []
    three = "a4" not in params
    out.append(f"func {fn}")
    out.append('  model "kernel model K (DESIGN Appendix A): effect on success as documented in the man pages; every call may fail with any errno"')
    out.append(f"  params {params}")
    for nr, name, assigns, ens in CASES:
        if three and any(("a4" in e or "a5" in e or "a6" in e) for e in ens):
            # issued through RawSyscall6 only; a 3-argument call of it has no modelled effect
            continue
        out.append(f"  case trap == {nr}:   # {name}")
        out.append("    assigns " + ", ".join(["K.last_trap", "K.last_errno"] + assigns))
        out.append(f"    ensures K.last_trap == {nr} && K.last_errno == uintptr(err)")
        for e in ens:
            out.append("    ensures " + e)
    out.append("  case default:")
    out.append("    assigns K.last_trap, K.last_errno")
    out.append("    ensures K.last_trap == trap && K.last_errno == uintptr(err)")
    return "\n".join(out) + "\n"

with open(os.path.join(HERE, "..", "kernel_K.contracts"), "w") as f:
    f.write("# GENERATED by spec/gen/gen_kernel_K.py - do not edit by hand.\n")
    f.write(GHOST + "\n")
    f.write(emit("syscall.RawSyscall", "trap a1 a2 a3") )
    f.write("\n")
    f.write(emit("syscall.RawSyscall6", "trap a1 a2 a3 a4 a5 a6"))
    f.write("""
# clone / clone3 through the vfork trampoline (assembly: trusted external). Three outcomes:
# failure in the parent (err != 0), success in the parent (r1 = child pid), or the child (r1 == 0, err == 0).
func pkg/forkexec/vfork.RawVforkSyscall
  model "clone(2)/clone3(2): the child starts with a copy of the parent's descriptor table and the requested flags"
  params trap a1 a2 a3
  assigns K.clone_flags, K.clone3, K.clone_cgroup, K.last_trap, K.last_errno
  ensures K.last_trap == trap && K.last_errno == uintptr(err)
  ensures err == 0 ==> r1 < 4194305
  ensures trap == 56 ==> K.clone_flags == a1 && !K.clone3
  ensures trap == 435 ==> K.clone3 && K.clone_flags == uintptr(deref_as(ptr(a1), forkexec.cloneArgs).flags) && K.clone_cgroup == uintptr(deref_as(ptr(a1), forkexec.cloneArgs).cgroup)
""")
print("ok", len(CASES), "cases")

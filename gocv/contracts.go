package main

import (
	"bufio"
	"fmt"
	"os"
	"path/filepath"
	"sort"
	"strconv"
	"strings"
)

// Clause is one specification expression with its attribution.
type Clause struct {
	// Abstract: a definitional postcondition "result == f(args)" with f uninterpreted: assumed by
	// callers (the function is deterministic in its arguments), not an obligation of the body.
	Abstract bool
	Expr  SExpr
	Text  string
	Props []string // property ids this clause is counted under (empty = the function's props)
	Mode  string   // "" | "int" | "bv": only used in that arithmetic mode
	Group string   // proof group (%name): see scriptRegionGroup
	Src   string
}

type LoopSpec struct {
	Invariants []Clause
	Decreases  *Clause
}

type CallsiteSpec struct {
	Callee string // suffix match on callee name
	When   SExpr  // over callee parameter names; optional
	Assert Clause
}

// InvokeSpec: the function may call the function value Fn (exactly once when When holds, else not
// at all). If the value is a closure of the calling function that has a contract, the caller
// accounts for the closure's writes to its captured variables and learns its postcondition.
type InvokeSpec struct {
	Fn   SExpr
	When SExpr
	Src  string
}

type Case struct {
	Guard      SExpr
	GuardText  string
	Assigns    []SExpr
	HasAssigns bool
	Ensures    []Clause
	Requires   []Clause
}

type Contract struct {
	Func     string
	Props    []string
	Arith    []string // modes to verify in: "bv", "int"
	Requires []Clause
	// Assumes: facts about the environment assumed at entry (not checked at call sites; listed in the evidence)
	Assumes  []Clause
	Ensures  []Clause
	Assigns  []SExpr
	// HasAssigns: an assigns clause was given (possibly empty = assigns nothing)
	HasAssigns bool
	Loops      map[string]*LoopSpec
	Invokes    []InvokeSpec
	Callsites  []CallsiteSpec
	Asserts    []Clause
	Kind       string // "" (verified) | trusted | assumed | model | inline | extern-verified
	Why        string
	NoReturn   bool
	Safety     bool
	NoPanic    bool // callers may assume the function does not panic (default true for contracts)
	Pure       bool
	Cases      []*Case
	Src        string
	Ghosts     []string // local ghost declarations (unused for now)
	Params     []string // for externals without source: parameter names (p0.. by default)
	SafetyProps []string
	FrameProps  []string
	NoSafety    bool
	Group       string
	NilSafe     bool // a method that may be called on a nil receiver
	Export      bool // lemma proved in bv mode and assumed (over the uninterpreted bit functions) in int mode
	WrapArith   bool // int mode: model wrap-around exactly instead of proving its absence
}

type GhostVar struct {
	Name string
	Type string
	Src  string
}

type SpecFn struct {
	Name   string
	Params []SVar
	Result string
	Body   SExpr // nil = uninterpreted
	Reads  []string // memory arrays the body reads (heap-dependent specification function)
	Rec    bool
	Src    string
}

// GlobalInv is an invariant of a package-level variable that is only written by
// its package's initialisation ("frozen"); proved on the package initialiser,
// assumed everywhere else.
type GlobalInv struct {
	Pkg    string // short package path
	Name   string
	Clause Clause
}

// Macro: a named specification expression expanded at its use site (so that it reads the
// state and the program variables of the place where it is used).
type Macro struct {
	Name   string
	Params []string
	Body   SExpr
	Src    string
}

// NamedAxiom: a fact about a recursive specification function whose proof needs induction. The
// inductive step is a lemma discharged by the solver (By); the induction principle itself is applied
// outside the solver and listed as an assumption. Assumed in every VC that uses the function (Uses).
type NamedAxiom struct {
	Name, Uses, By string
	Clause         Clause
}

type Specs struct {
	NamedAxioms []NamedAxiom
	Macros     map[string]*Macro
	GlobalInvs []GlobalInv
	Contracts map[string]*Contract
	Ghosts    []*GhostVar
	Fns       map[string]*SpecFn
	FnOrder   []string
	Axioms    []Clause
	Files     []string
}

var clauseKeywords = map[string]bool{
	"func": true, "ghost": true, "spec": true, "axiom": true, "arith": true, "requires": true, "ensures": true,
	"assigns": true, "loop": true, "callsite": true, "trusted": true, "assumed": true, "inline": true, "pure": true,
	"noreturn": true, "model": true, "safety": true, "case": true, "props": true, "assert": true, "verified-external": true,
	"params": true, "endcase": true, "global": true, "abstracts": true, "lemma": true, "assume": true, "overflow": true, "macro": true, "nilsafe": true, "invokes": true,
}

// LoadSpecs reads every contract source: //@ lines of zz_contracts_verif.go files
// in the repository and *.contracts files in the spec directory.
func LoadSpecs(repo string, specDir string) (*Specs, error) {
	sp := &Specs{Contracts: map[string]*Contract{}, Fns: map[string]*SpecFn{}, Macros: map[string]*Macro{}}
	var files []string
	filepath.Walk(repo, func(p string, info os.FileInfo, err error) error {
		if err != nil {
			return nil
		}
		if info.IsDir() && (info.Name() == ".git" || info.Name() == "testdata") {
			return filepath.SkipDir
		}
		if !info.IsDir() && info.Name() == "zz_contracts_verif.go" {
			files = append(files, p)
		}
		return nil
	})
	sort.Strings(files)
	var specFiles []string
	if specDir != "" {
		m, _ := filepath.Glob(filepath.Join(specDir, "*.contracts"))
		sort.Strings(m)
		specFiles = m
	}
	for _, f := range append(specFiles, files...) {
		if err := sp.loadFile(f, strings.HasSuffix(f, ".go")); err != nil {
			return nil, err
		}
	}
	// package initialisers must establish the global invariants
	for _, gi := range sp.GlobalInvs {
		name := gi.Pkg + ".init"
		c := sp.Contracts[name]
		if c == nil {
			c = &Contract{Func: name, Loops: map[string]*LoopSpec{}, Src: gi.Clause.Src, NoPanic: true, Arith: []string{"bv"}, Kind: "init"}
			sp.Contracts[name] = c
		}
		for _, p := range gi.Clause.Props {
			if !hasProp(c.Props, p) {
				c.Props = append(c.Props, p)
			}
		}
		c.Ensures = append(c.Ensures, gi.Clause)
	}
	return sp, nil
}

func (sp *Specs) loadFile(path string, goFile bool) error {
	fh, err := os.Open(path)
	if err != nil {
		return err
	}
	defer fh.Close()
	sp.Files = append(sp.Files, path)
	type rawClause struct {
		text string
		line int
	}
	var clauses []rawClause
	sc := bufio.NewScanner(fh)
	sc.Buffer(make([]byte, 1<<20), 1<<20)
	ln := 0
	for sc.Scan() {
		ln++
		line := sc.Text()
		var body string
		t := strings.TrimSpace(line)
		if goFile {
			if strings.HasPrefix(t, "//@") {
				body = t[3:]
			} else if strings.HasPrefix(t, "// @") {
				body = t[4:]
			} else {
				continue
			}
		} else {
			if strings.HasPrefix(t, "#") || t == "" {
				continue
			}
			if strings.HasPrefix(t, "//@") {
				body = t[3:]
			} else if strings.HasPrefix(t, "//") {
				continue
			} else {
				body = t
			}
		}
		body = strings.TrimSpace(body)
		if body == "" {
			continue
		}
		if !goFile {
			if i := strings.Index(body, "   # "); i >= 0 {
				body = strings.TrimSpace(body[:i])
			}
		}
		// strip trailing comment (// ...), not inside strings
		if i := commentIndex(body); i >= 0 {
			body = strings.TrimSpace(body[:i])
			if body == "" {
				continue
			}
		}
		first := body
		if i := strings.IndexAny(body, " \t:"); i >= 0 {
			first = body[:i]
		}
		if clauseKeywords[first] {
			clauses = append(clauses, rawClause{body, ln})
		} else if len(clauses) > 0 {
			clauses[len(clauses)-1].text += " " + body
		} else {
			return fmt.Errorf("%s:%d: continuation without clause", path, ln)
		}
	}
	var cur *Contract
	var curCase *Case
	for _, rc := range clauses {
		src := fmt.Sprintf("%s:%d", path, rc.line)
		kw, rest := splitKw(rc.text)
		fail := func(err error) error { return fmt.Errorf("%s: %v", src, err) }
		switch kw {
		case "func":
			fields := strings.Fields(rest)
			if len(fields) == 0 {
				return fail(fmt.Errorf("func needs a name"))
			}
			// function names can contain spaces? no: pkg.(*T).M
			name := fields[0]
			cur = &Contract{Func: name, Loops: map[string]*LoopSpec{}, Src: src, NoPanic: true}
			curCase = nil
			if len(fields) > 1 {
				if fields[1] != "props" {
					return fail(fmt.Errorf("expected 'props' after function name"))
				}
				cur.Props = fields[2:]
			}
			if old, dup := sp.Contracts[name]; dup {
				return fail(fmt.Errorf("duplicate contract for %s (first at %s)", name, old.Src))
			}
			sp.Contracts[name] = cur
		case "ghost":
			f := strings.Fields(rest)
			if len(f) < 2 {
				return fail(fmt.Errorf("ghost <name> <type>"))
			}
			sp.Ghosts = append(sp.Ghosts, &GhostVar{Name: f[0], Type: strings.Join(f[1:], ""), Src: src})
		case "spec":
			fn, err := parseSpecFn(rest)
			if err != nil {
				return fail(err)
			}
			fn.Src = src
			if _, dup := sp.Fns[fn.Name]; dup {
				return fail(fmt.Errorf("duplicate spec function %s", fn.Name))
			}
			sp.Fns[fn.Name] = fn
			sp.FnOrder = append(sp.FnOrder, fn.Name)
		case "global":
			// global <pkg>.<name> [props Cxx ...]: invariant <expr>
			i := strings.Index(rest, ": invariant")
			if i < 0 {
				return fail(fmt.Errorf("global <pkg.name> [props ...]: invariant <expr>"))
			}
			head := strings.Fields(rest[:i])
			cl, err := parseClause(strings.TrimSpace(rest[i+len(": invariant"):]), src)
			if err != nil {
				return fail(err)
			}
			if len(head) > 2 && head[1] == "props" {
				cl.Props = head[2:]
			}
			j := strings.LastIndex(head[0], ".")
			if j < 0 {
				return fail(fmt.Errorf("global needs pkg.name"))
			}
			sp.GlobalInvs = append(sp.GlobalInvs, GlobalInv{Pkg: head[0][:j], Name: head[0][j+1:], Clause: cl})
		case "macro":
			// macro name(p1, p2) = expr
			i := strings.Index(rest, "=")
			j := strings.Index(rest, "(")
			k := strings.Index(rest, ")")
			if i < 0 || j < 0 || k < j || i < k {
				return fail(fmt.Errorf("macro name(params) = expr"))
			}
			m := &Macro{Name: strings.TrimSpace(rest[:j]), Src: src}
			for _, p := range strings.Split(rest[j+1:k], ",") {
				if p = strings.TrimSpace(p); p != "" {
					m.Params = append(m.Params, p)
				}
			}
			e, err := ParseSpec(rest[i+1:])
			if err != nil {
				return fail(err)
			}
			m.Body = e
			sp.Macros[m.Name] = m
		case "lemma":
			// lemma <name> [arith int|bv] [props Cxx ...]: <expr>
			i := strings.Index(rest, ":")
			if i < 0 {
				return fail(fmt.Errorf("lemma <name> [arith m] [props ...]: <expr>"))
			}
			head := strings.Fields(rest[:i])
			if len(head) == 0 {
				return fail(fmt.Errorf("lemma needs a name"))
			}
			cl, err := parseClause(strings.TrimSpace(rest[i+1:]), src)
			if err != nil {
				return fail(err)
			}
			c := &Contract{Func: "lemma:" + head[0], Loops: map[string]*LoopSpec{}, Src: src, Kind: "lemma", Arith: []string{"int"}}
			for k := 1; k < len(head); k++ {
				switch head[k] {
				case "arith":
					if k+1 < len(head) {
						c.Arith = []string{head[k+1]}
						k++
					}
				case "export":
					c.Export = true
				case "group":
					if k+1 < len(head) {
						c.Group = head[k+1]
						k++
					}
				case "props":
					c.Props = head[k+1:]
					k = len(head)
				}
			}
			c.Ensures = []Clause{cl}
			sp.Contracts[c.Func] = c
			cur = nil
		case "axiom":
			// axiom <name> uses <specfn> by <justification>: <expr>
			i := strings.Index(rest, ":")
			if i < 0 {
				return fail(fmt.Errorf("axiom <name> uses <fn> by <lemma>: <expr>"))
			}
			head := strings.Fields(rest[:i])
			cl, err := parseClause(strings.TrimSpace(rest[i+1:]), src)
			if err != nil {
				return fail(err)
			}
			ax := NamedAxiom{Clause: cl}
			if len(head) > 0 {
				ax.Name = head[0]
			}
			for k := 1; k+1 < len(head); k += 2 {
				switch head[k] {
				case "uses":
					ax.Uses = head[k+1]
				case "by":
					ax.By = head[k+1]
				}
			}
			sp.NamedAxioms = append(sp.NamedAxioms, ax)
		default:
			if cur == nil {
				return fail(fmt.Errorf("clause %q outside a func block", kw))
			}
			switch kw {
			case "props":
				cur.Props = strings.Fields(rest)
			case "arith":
				cur.Arith = strings.Fields(rest)
			case "params":
				cur.Params = strings.Fields(rest)
			case "requires":
				cl, err := parseClause(rest, src)
				if err != nil {
					return fail(err)
				}
				if curCase != nil {
					curCase.Requires = append(curCase.Requires, cl)
				} else {
					cur.Requires = append(cur.Requires, cl)
				}
			case "ensures":
				cl, err := parseClause(rest, src)
				if err != nil {
					return fail(err)
				}
				if curCase != nil {
					curCase.Ensures = append(curCase.Ensures, cl)
				} else {
					cur.Ensures = append(cur.Ensures, cl)
				}
			case "overflow":
				cur.WrapArith = strings.TrimSpace(rest) == "wrap"
			case "assume":
				cl, err := parseClause(rest, src)
				if err != nil {
					return fail(err)
				}
				cur.Assumes = append(cur.Assumes, cl)
			case "abstracts":
				cl, err := parseClause(rest, src)
				if err != nil {
					return fail(err)
				}
				cl.Abstract = true
				cur.Ensures = append(cur.Ensures, cl)
			case "assert":
				cl, err := parseClause(rest, src)
				if err != nil {
					return fail(err)
				}
				cur.Asserts = append(cur.Asserts, cl)
			case "assigns":
				var locs []SExpr
				if strings.TrimSpace(rest) != "" && strings.TrimSpace(rest) != "nothing" {
					for _, part := range splitTopLevel(rest, ',') {
						e, err := ParseSpec(part)
						if err != nil {
							return fail(err)
						}
						locs = append(locs, e)
					}
				}
				if curCase != nil {
					curCase.Assigns = append(curCase.Assigns, locs...)
					curCase.HasAssigns = true
				} else {
					cur.Assigns = append(cur.Assigns, locs...)
					cur.HasAssigns = true
				}
			case "loop":
				// loop <id>: invariant <expr> | decreases <expr> | unroll N
				i := strings.Index(rest, ":")
				if i < 0 {
					return fail(fmt.Errorf("loop <id>: ..."))
				}
				id := strings.TrimSpace(rest[:i])
				k2, r2 := splitKw(strings.TrimSpace(rest[i+1:]))
				ls := cur.Loops[id]
				if ls == nil {
					ls = &LoopSpec{}
					cur.Loops[id] = ls
				}
				switch k2 {
				case "invariant":
					cl, err := parseClause(r2, src)
					if err != nil {
						return fail(err)
					}
					ls.Invariants = append(ls.Invariants, cl)
				case "decreases":
					cl, err := parseClause(r2, src)
					if err != nil {
						return fail(err)
					}
					ls.Decreases = &cl
				default:
					return fail(fmt.Errorf("unknown loop clause %q", k2))
				}
			case "callsite":
				// callsite <callee> [when <expr>]: assert <expr>
				i := strings.Index(rest, ": assert")
				if i < 0 {
					return fail(fmt.Errorf("callsite <callee> [when e]: assert <expr>"))
				}
				head := strings.TrimSpace(rest[:i])
				body := strings.TrimSpace(rest[i+len(": assert"):])
				cs := CallsiteSpec{}
				if j := strings.Index(head, " when "); j >= 0 {
					w, err := ParseSpec(head[j+6:])
					if err != nil {
						return fail(err)
					}
					cs.When = w
					head = strings.TrimSpace(head[:j])
				}
				cs.Callee = head
				cl, err := parseClause(body, src)
				if err != nil {
					return fail(err)
				}
				cs.Assert = cl
				cur.Callsites = append(cur.Callsites, cs)
			case "trusted", "assumed", "model", "inline", "verified-external":
				cur.Kind = kw
				cur.Why = strings.Trim(strings.TrimSpace(rest), "\"")
			case "invokes":
				// invokes <expr> when <cond>
				i := strings.Index(rest, " when ")
				if i < 0 {
					return fail(fmt.Errorf("invokes <expr> when <cond>"))
				}
				fe, err := ParseSpec(rest[:i])
				if err != nil {
					return fail(err)
				}
				we, err := ParseSpec(rest[i+6:])
				if err != nil {
					return fail(err)
				}
				cur.Invokes = append(cur.Invokes, InvokeSpec{Fn: fe, When: we, Src: src})
			case "nilsafe":
				cur.NilSafe = true
			case "noreturn":
				cur.NoReturn = true
			case "pure":
				cur.Pure = true
			case "safety":
				cur.Safety = true
				if strings.TrimSpace(rest) == "off" {
					cur.NoSafety = true
				} else {
					cur.SafetyProps = strings.Fields(rest)
				}
			case "case":
				g := strings.TrimSuffix(strings.TrimSpace(rest), ":")
				c := &Case{GuardText: g}
				if g != "default" {
					e, err := ParseSpec(g)
					if err != nil {
						return fail(err)
					}
					c.Guard = e
				}
				cur.Cases = append(cur.Cases, c)
				curCase = c
			case "endcase":
				curCase = nil
			default:
				return fail(fmt.Errorf("unknown clause %q", kw))
			}
		}
	}
	return nil
}

func commentIndex(s string) int {
	inStr := false
	for i := 0; i+1 < len(s); i++ {
		switch {
		case s[i] == '"' && (i == 0 || s[i-1] != '\\'):
			inStr = !inStr
		case !inStr && s[i] == '/' && s[i+1] == '/':
			return i
		}
	}
	return -1
}

func splitKw(s string) (string, string) {
	s = strings.TrimSpace(s)
	i := strings.IndexAny(s, " \t")
	if i < 0 {
		return s, ""
	}
	return s[:i], strings.TrimSpace(s[i+1:])
}

func splitTopLevel(s string, sep byte) []string {
	var out []string
	depth := 0
	start := 0
	for i := 0; i < len(s); i++ {
		switch s[i] {
		case '(', '[':
			depth++
		case ')', ']':
			depth--
		default:
			if s[i] == sep && depth == 0 {
				out = append(out, strings.TrimSpace(s[start:i]))
				start = i + 1
			}
		}
	}
	out = append(out, strings.TrimSpace(s[start:]))
	return out
}

// parseClause parses "[@C01 @C02] [#int] expr".
func parseClause(s string, src string) (Clause, error) {
	cl := Clause{Src: src}
	s = strings.TrimSpace(s)
	for {
		if strings.HasPrefix(s, "@") {
			i := strings.IndexAny(s, " \t")
			if i < 0 {
				return cl, fmt.Errorf("clause has only a tag")
			}
			cl.Props = append(cl.Props, s[1:i])
			s = strings.TrimSpace(s[i:])
			continue
		}
		if strings.HasPrefix(s, "%") {
			i := strings.IndexAny(s, " \t")
			if i < 0 {
				return cl, fmt.Errorf("clause has only a tag")
			}
			cl.Group = s[1:i]
			s = strings.TrimSpace(s[i:])
			continue
		}
		if strings.HasPrefix(s, "#int ") || strings.HasPrefix(s, "#bv ") {
			i := strings.IndexAny(s, " \t")
			cl.Mode = s[1:i]
			s = strings.TrimSpace(s[i:])
			continue
		}
		break
	}
	e, err := ParseSpec(s)
	if err != nil {
		return cl, err
	}
	cl.Expr = e
	cl.Text = s
	return cl, nil
}

// parseSpecFn parses "name(a T, b U) R [= expr]" or "rec name(...) R = expr".
func parseSpecFn(s string) (*SpecFn, error) {
	fn := &SpecFn{}
	s = strings.TrimSpace(s)
	if strings.HasPrefix(s, "rec ") {
		fn.Rec = true
		s = strings.TrimSpace(s[4:])
	}
	i := strings.Index(s, "(")
	if i < 0 {
		return nil, fmt.Errorf("spec fn: missing (")
	}
	fn.Name = strings.TrimSpace(s[:i])
	depth := 0
	j := i
	for ; j < len(s); j++ {
		if s[j] == '(' {
			depth++
		} else if s[j] == ')' {
			depth--
			if depth == 0 {
				break
			}
		}
	}
	params := strings.TrimSpace(s[i+1 : j])
	if params != "" {
		for _, p := range splitTopLevel(params, ',') {
			f := strings.Fields(p)
			if len(f) < 2 {
				return nil, fmt.Errorf("spec fn param %q", p)
			}
			fn.Params = append(fn.Params, SVar{f[0], strings.Join(f[1:], "")})
		}
	}
	rest := strings.TrimSpace(s[j+1:])
	if k := strings.Index(rest, "="); k >= 0 && !strings.HasPrefix(rest[k:], "==") {
		head := strings.TrimSpace(rest[:k])
		if r := strings.Index(head, " reads "); r >= 0 {
			for _, n := range strings.Split(head[r+7:], ",") {
				if n = strings.TrimSpace(n); n != "" {
					fn.Reads = append(fn.Reads, n)
				}
			}
			head = strings.TrimSpace(head[:r])
			rest = head + " " + rest[k:]
			k = len(head) + 1
		}
		fn.Result = strings.ReplaceAll(strings.TrimSpace(rest[:k]), " ", "")
		e, err := ParseSpec(rest[k+1:])
		if err != nil {
			return nil, err
		}
		fn.Body = e
	} else {
		fn.Result = strings.ReplaceAll(rest, " ", "")
	}
	if fn.Result == "" {
		return nil, fmt.Errorf("spec fn %s: missing result type", fn.Name)
	}
	return fn, nil
}

func atoiDefault(s string, d int) int {
	if n, err := strconv.Atoi(s); err == nil {
		return n
	}
	return d
}

package main

import (
	"fmt"
	"strconv"
	"strings"
	"unicode"
)

// ---- AST of the specification expression language (Gobra-flavoured Go) ----

type SExpr interface{ String() string }

type (
	SIdent  struct{ Name string }           // x, pkg.Name (qualified names are parsed as SSelect and resolved later)
	SLit    struct{ Val string; Kind string } // Kind: int | string | bool | nil | char
	SUnary  struct{ Op string; X SExpr }
	SBinary struct {
		Op   string
		X, Y SExpr
	}
	SSelect struct {
		X   SExpr
		Sel string
	}
	SIndex struct{ X, I SExpr }
	SSliceX struct{ X, Lo, Hi SExpr }
	SUpdate struct{ X, K, V SExpr } // m[k := v]
	SCall  struct {
		Fn   string
		Args []SExpr
	}
	SOld   struct{ X SExpr }
	SQuant struct {
		Forall bool
		Vars   []SVar
		Body   SExpr
	}
	SIte struct{ C, A, B SExpr }
)

type SVar struct{ Name, Type string }

func (e *SIdent) String() string  { return e.Name }
func (e *SLit) String() string    { return e.Val }
func (e *SUnary) String() string  { return e.Op + e.X.String() }
func (e *SBinary) String() string { return "(" + e.X.String() + " " + e.Op + " " + e.Y.String() + ")" }
func (e *SSelect) String() string { return e.X.String() + "." + e.Sel }
func (e *SIndex) String() string  { return e.X.String() + "[" + e.I.String() + "]" }
func (e *SSliceX) String() string {
	lo, hi := "", ""
	if e.Lo != nil {
		lo = e.Lo.String()
	}
	if e.Hi != nil {
		hi = e.Hi.String()
	}
	return e.X.String() + "[" + lo + ":" + hi + "]"
}
func (e *SUpdate) String() string { return e.X.String() + "[" + e.K.String() + " := " + e.V.String() + "]" }
func (e *SCall) String() string {
	var as []string
	for _, a := range e.Args {
		as = append(as, a.String())
	}
	return e.Fn + "(" + strings.Join(as, ", ") + ")"
}
func (e *SOld) String() string { return "old(" + e.X.String() + ")" }
func (e *SQuant) String() string {
	q := "exists"
	if e.Forall {
		q = "forall"
	}
	var vs []string
	for _, v := range e.Vars {
		vs = append(vs, v.Name+" "+v.Type)
	}
	return q + " " + strings.Join(vs, ", ") + " :: " + e.Body.String()
}
func (e *SIte) String() string {
	return "ite(" + e.C.String() + ", " + e.A.String() + ", " + e.B.String() + ")"
}

// ---- lexer ----

type tok struct {
	kind string // ident int string char op eof
	text string
	pos  int
}

func lexSpec(src string) ([]tok, error) {
	var toks []tok
	i := 0
	for i < len(src) {
		c := src[i]
		switch {
		case c == ' ' || c == '\t' || c == '\n' || c == '\r':
			i++
		case c == '/' && i+1 < len(src) && src[i+1] == '/':
			// trailing comment
			i = len(src)
		case unicode.IsLetter(rune(c)) || c == '_':
			j := i
			for j < len(src) && (unicode.IsLetter(rune(src[j])) || unicode.IsDigit(rune(src[j])) || src[j] == '_' || src[j] == '$') {
				j++
			}
			toks = append(toks, tok{"ident", src[i:j], i})
			i = j
		case unicode.IsDigit(rune(c)):
			j := i
			for j < len(src) && (unicode.IsLetter(rune(src[j])) || unicode.IsDigit(rune(src[j])) || src[j] == '_') {
				j++
			}
			toks = append(toks, tok{"int", strings.ReplaceAll(src[i:j], "_", ""), i})
			i = j
		case c == '"':
			j := i + 1
			for j < len(src) && src[j] != '"' {
				if src[j] == '\\' {
					j++
				}
				j++
			}
			if j >= len(src) {
				return nil, fmt.Errorf("unterminated string at %d", i)
			}
			s, err := strconv.Unquote(src[i : j+1])
			if err != nil {
				return nil, fmt.Errorf("bad string at %d: %v", i, err)
			}
			toks = append(toks, tok{"string", s, i})
			i = j + 1
		case c == '\'':
			j := i + 1
			for j < len(src) && src[j] != '\'' {
				if src[j] == '\\' {
					j++
				}
				j++
			}
			r, _, _, err := strconv.UnquoteChar(src[i+1:j], '\'')
			if err != nil {
				return nil, fmt.Errorf("bad char at %d", i)
			}
			toks = append(toks, tok{"int", strconv.Itoa(int(r)), i})
			i = j + 1
		default:
			ops := []string{"<==>", "==>", ":=", "::", "&&", "||", "==", "!=", "<=", ">=", "<<", ">>", "&^",
				"+", "-", "*", "/", "%", "&", "|", "^", "<", ">", "!", "(", ")", "[", "]", ".", ",", ":", "{", "}"}
			matched := false
			for _, op := range ops {
				if strings.HasPrefix(src[i:], op) {
					toks = append(toks, tok{"op", op, i})
					i += len(op)
					matched = true
					break
				}
			}
			if !matched {
				return nil, fmt.Errorf("unexpected character %q at %d in %q", c, i, src)
			}
		}
	}
	toks = append(toks, tok{"eof", "", len(src)})
	return toks, nil
}

// ---- parser ----

type specParser struct {
	toks []tok
	p    int
	src  string
}

func ParseSpec(src string) (e SExpr, err error) {
	toks, err := lexSpec(src)
	if err != nil {
		return nil, err
	}
	ps := &specParser{toks: toks, src: src}
	defer func() {
		if r := recover(); r != nil {
			if pe, ok := r.(parseErr); ok {
				err = fmt.Errorf("spec parse error in %q: %s", src, string(pe))
				return
			}
			panic(r)
		}
	}()
	e = ps.expr()
	if ps.peek().kind != "eof" {
		ps.fail("unexpected %q", ps.peek().text)
	}
	return e, nil
}

type parseErr string

func (ps *specParser) fail(f string, a ...any) { panic(parseErr(fmt.Sprintf(f, a...))) }
func (ps *specParser) peek() tok               { return ps.toks[ps.p] }
func (ps *specParser) next() tok               { t := ps.toks[ps.p]; ps.p++; return t }
func (ps *specParser) isOp(s string) bool {
	t := ps.peek()
	return t.kind == "op" && t.text == s
}
func (ps *specParser) accept(s string) bool {
	if ps.isOp(s) {
		ps.p++
		return true
	}
	return false
}
func (ps *specParser) expect(s string) {
	if !ps.accept(s) {
		ps.fail("expected %q, found %q", s, ps.peek().text)
	}
}

func (ps *specParser) expr() SExpr {
	t := ps.peek()
	if t.kind == "ident" && (t.text == "forall" || t.text == "exists") {
		ps.next()
		var vars []SVar
		for {
			n := ps.next()
			if n.kind != "ident" {
				ps.fail("expected bound variable")
			}
			ty := ps.typeName()
			vars = append(vars, SVar{n.text, ty})
			if !ps.accept(",") {
				break
			}
		}
		ps.expect("::")
		body := ps.expr()
		return &SQuant{Forall: t.text == "forall", Vars: vars, Body: body}
	}
	return ps.iff()
}

func (ps *specParser) typeName() string {
	// ident | pkg.ident | []T | map[K]V | *T
	if ps.accept("[") {
		ps.expect("]")
		return "[]" + ps.typeName()
	}
	if ps.accept("*") {
		return "*" + ps.typeName()
	}
	t := ps.next()
	if t.kind != "ident" {
		ps.fail("expected type name, found %q", t.text)
	}
	if t.text == "map" {
		ps.expect("[")
		k := ps.typeName()
		ps.expect("]")
		return "map[" + k + "]" + ps.typeName()
	}
	name := t.text
	for ps.isOp(".") {
		ps.next()
		n := ps.next()
		name += "." + n.text
	}
	return name
}

func (ps *specParser) iff() SExpr {
	x := ps.impl()
	for ps.accept("<==>") {
		var y SExpr
		t := ps.peek()
		if t.kind == "ident" && (t.text == "forall" || t.text == "exists") {
			y = ps.expr()
		} else {
			y = ps.impl()
		}
		x = &SBinary{"<==>", x, y}
	}
	return x
}

func (ps *specParser) impl() SExpr {
	x := ps.or()
	if ps.accept("==>") {
		// right associative; the consequent may itself be a quantifier
		var y SExpr
		t := ps.peek()
		if t.kind == "ident" && (t.text == "forall" || t.text == "exists") {
			y = ps.expr()
		} else {
			y = ps.impl()
		}
		return &SBinary{"==>", x, y}
	}
	return x
}

func (ps *specParser) or() SExpr {
	x := ps.and()
	for ps.accept("||") {
		x = &SBinary{"||", x, ps.and()}
	}
	return x
}

func (ps *specParser) and() SExpr {
	x := ps.cmp()
	for ps.accept("&&") {
		t := ps.peek()
		if t.kind == "ident" && (t.text == "forall" || t.text == "exists") {
			x = &SBinary{"&&", x, ps.expr()}
			return x
		}
		x = &SBinary{"&&", x, ps.cmp()}
	}
	return x
}

func (ps *specParser) cmp() SExpr {
	x := ps.add()
	for {
		t := ps.peek()
		if t.kind == "op" && (t.text == "==" || t.text == "!=" || t.text == "<" || t.text == "<=" || t.text == ">" || t.text == ">=") {
			ps.next()
			x = &SBinary{t.text, x, ps.add()}
			continue
		}
		return x
	}
}

func (ps *specParser) add() SExpr {
	x := ps.mul()
	for {
		t := ps.peek()
		if t.kind == "op" && (t.text == "+" || t.text == "-" || t.text == "|" || t.text == "^") {
			ps.next()
			x = &SBinary{t.text, x, ps.mul()}
			continue
		}
		return x
	}
}

func (ps *specParser) mul() SExpr {
	x := ps.unary()
	for {
		t := ps.peek()
		if t.kind == "op" && (t.text == "*" || t.text == "/" || t.text == "%" || t.text == "<<" || t.text == ">>" || t.text == "&" || t.text == "&^") {
			ps.next()
			x = &SBinary{t.text, x, ps.unary()}
			continue
		}
		return x
	}
}

func (ps *specParser) unary() SExpr {
	t := ps.peek()
	if t.kind == "op" && (t.text == "!" || t.text == "-" || t.text == "^") {
		ps.next()
		return &SUnary{t.text, ps.unary()}
	}
	return ps.postfix(ps.primary())
}

func (ps *specParser) primary() SExpr {
	t := ps.next()
	switch t.kind {
	case "int":
		return &SLit{t.text, "int"}
	case "string":
		return &SLit{t.text, "string"}
	case "ident":
		switch t.text {
		case "true", "false":
			return &SLit{t.text, "bool"}
		case "nil":
			return &SLit{"nil", "nil"}
		case "old":
			ps.expect("(")
			x := ps.expr()
			ps.expect(")")
			return &SOld{x}
		case "ite":
			ps.expect("(")
			c := ps.expr()
			ps.expect(",")
			a := ps.expr()
			ps.expect(",")
			b := ps.expr()
			ps.expect(")")
			return &SIte{c, a, b}
		}
		if ps.isOp("(") {
			ps.next()
			var args []SExpr
			if !ps.isOp(")") {
				for {
					args = append(args, ps.expr())
					if !ps.accept(",") {
						break
					}
				}
			}
			ps.expect(")")
			return &SCall{t.text, args}
		}
		return &SIdent{t.text}
	case "op":
		if t.text == "(" {
			x := ps.expr()
			ps.expect(")")
			return x
		}
	}
	ps.fail("unexpected %q", t.text)
	return nil
}

func (ps *specParser) postfix(x SExpr) SExpr {
	for {
		switch {
		case ps.isOp("."):
			ps.next()
			n := ps.next()
			if n.kind != "ident" && n.kind != "int" {
				ps.fail("expected selector")
			}
			// qualified call: pkg.F(args)
			if ps.isOp("(") {
				if id, ok := x.(*SIdent); ok {
					ps.next()
					var args []SExpr
					if !ps.isOp(")") {
						for {
							args = append(args, ps.expr())
							if !ps.accept(",") {
								break
							}
						}
					}
					ps.expect(")")
					x = &SCall{id.Name + "." + n.text, args}
					continue
				}
			}
			x = &SSelect{x, n.text}
		case ps.isOp("["):
			ps.next()
			if ps.accept(":") {
				hi := ps.expr()
				ps.expect("]")
				x = &SSliceX{x, nil, hi}
				continue
			}
			i := ps.expr()
			if ps.accept(":=") {
				v := ps.expr()
				ps.expect("]")
				x = &SUpdate{x, i, v}
				continue
			}
			if ps.accept(":") {
				var hi SExpr
				if !ps.isOp("]") {
					hi = ps.expr()
				}
				ps.expect("]")
				x = &SSliceX{x, i, hi}
				continue
			}
			ps.expect("]")
			x = &SIndex{x, i}
		default:
			return x
		}
	}
}

package main

import (
	"bytes"
	"context"
	"fmt"
	"os"
	"os/exec"
	"path/filepath"
	"strings"
	"sync"
	"time"
)

// Sort is the SMT-LIB text of a sort.
type Sort string

// Term is an SMT-LIB term with its sort.
type Term struct {
	S    string
	Sort Sort
}

const (
	SBool  Sort = "Bool"
	SInt   Sort = "Int"
	SRef   Sort = "Ref"
	SSlice Sort = "Slice"
	SStr   Sort = "Str"
	SIface Sort = "Iface"
)

func BVSort(n int) Sort           { return Sort(fmt.Sprintf("(_ BitVec %d)", n)) }
func ArrSort(k, v Sort) Sort      { return Sort(fmt.Sprintf("(Array %s %s)", k, v)) }
func (s Sort) IsBV() (int, bool) {
	var n int
	if _, err := fmt.Sscanf(string(s), "(_ BitVec %d)", &n); err == nil {
		return n, true
	}
	return 0, false
}

var (
	TTrue  = Term{"true", SBool}
	TFalse = Term{"false", SBool}
	TNull  = Term{"null", SRef}
)

func App(sort Sort, op string, args ...Term) Term {
	var b strings.Builder
	b.WriteByte('(')
	b.WriteString(op)
	for _, a := range args {
		b.WriteByte(' ')
		b.WriteString(a.S)
	}
	b.WriteByte(')')
	return Term{b.String(), sort}
}

func And(ts ...Term) Term {
	var keep []Term
	for _, t := range ts {
		if t.S == "true" {
			continue
		}
		if t.S == "false" {
			return TFalse
		}
		keep = append(keep, t)
	}
	switch len(keep) {
	case 0:
		return TTrue
	case 1:
		return keep[0]
	}
	return App(SBool, "and", keep...)
}

func Or(ts ...Term) Term {
	var keep []Term
	for _, t := range ts {
		if t.S == "false" {
			continue
		}
		if t.S == "true" {
			return TTrue
		}
		keep = append(keep, t)
	}
	switch len(keep) {
	case 0:
		return TFalse
	case 1:
		return keep[0]
	}
	return App(SBool, "or", keep...)
}

func Not(t Term) Term {
	switch t.S {
	case "true":
		return TFalse
	case "false":
		return TTrue
	}
	return App(SBool, "not", t)
}

func Implies(a, b Term) Term {
	if a.S == "true" {
		return b
	}
	if a.S == "false" || b.S == "true" {
		return TTrue
	}
	return App(SBool, "=>", a, b)
}

func Eq(a, b Term) Term {
	if a.S == b.S {
		return TTrue
	}
	if a.Sort == SBool {
		switch {
		case a.S == "true":
			return b
		case b.S == "true":
			return a
		case a.S == "false":
			return Not(b)
		case b.S == "false":
			return Not(a)
		}
	}
	return App(SBool, "=", a, b)
}

func Ite(c, a, b Term) Term {
	if c.S == "true" {
		return a
	}
	if c.S == "false" {
		return b
	}
	if a.S == b.S {
		return a
	}
	return App(a.Sort, "ite", c, a, b)
}

func Select(arr, idx Term, elem Sort) Term { return App(elem, "select", arr, idx) }
func Store(arr, idx, v Term) Term         { return App(arr.Sort, "store", arr, idx, v) }

func IntLit(v int64) Term {
	if v < 0 {
		return Term{fmt.Sprintf("(- %d)", -v), SInt}
	}
	return Term{fmt.Sprintf("%d", v), SInt}
}

func BVLit(v uint64, bits int) Term {
	if bits < 64 {
		v &= (uint64(1) << uint(bits)) - 1
	}
	if bits%4 == 0 {
		return Term{fmt.Sprintf("#x%0*x", bits/4, v), BVSort(bits)}
	}
	return Term{fmt.Sprintf("#b%0*b", bits, v), BVSort(bits)}
}

func Forall(vars []Term, body Term, pats ...Term) Term {
	if len(vars) == 0 {
		return body
	}
	var b strings.Builder
	b.WriteString("(forall (")
	for _, v := range vars {
		fmt.Fprintf(&b, "(%s %s)", v.S, v.Sort)
	}
	b.WriteString(") ")
	b.WriteString(body.S)
	b.WriteString(")")
	return Term{b.String(), SBool}
}

func Exists(vars []Term, body Term) Term {
	if len(vars) == 0 {
		return body
	}
	var b strings.Builder
	b.WriteString("(exists (")
	for _, v := range vars {
		fmt.Fprintf(&b, "(%s %s)", v.S, v.Sort)
	}
	b.WriteString(") ")
	b.WriteString(body.S)
	b.WriteString(")")
	return Term{b.String(), SBool}
}

// ---------------------------------------------------------------- solvers

type SolverResult struct {
	Status  string // unsat | sat | unknown | timeout | error
	Solver  string
	Seconds float64
	Output  string // full solver output (model when sat)
}

type solverSpec struct {
	name string
	argv func(file string, timeoutSec int) []string
	// transform adapts the script to the solver's dialect; returns "" if unsupported.
	transform func(script string) string
}

var solvers = []solverSpec{
	{"z3-5.1.0", func(f string, t int) []string {
		return []string{"z3-new", fmt.Sprintf("-T:%d", t), f}
	}, func(s string) string { return s }},
	{"z3-4.8.12", func(f string, t int) []string {
		return []string{"/usr/bin/z3", fmt.Sprintf("-T:%d", t), "smt.random_seed=7", f}
	}, func(s string) string { return s }},
	{"cvc5-1.0.3", func(f string, t int) []string {
		return []string{"cvc5", "--seed=7", fmt.Sprintf("--tlimit=%d", t*1000), f}
	}, func(s string) string {
		if strings.Contains(s, "(lambda ") || strings.Contains(s, "(_ as-array") {
			return ""
		}
		return "(set-logic ALL)\n" + s
	}},
	{"z3-5.1.0/seed7", func(f string, t int) []string {
		return []string{"z3-new", fmt.Sprintf("-T:%d", t), "smt.random_seed=7", f}
	}, func(s string) string { return s }},
	{"z3-5.1.0/seed3", func(f string, t int) []string {
		return []string{"z3-new", fmt.Sprintf("-T:%d", t), "smt.random_seed=3", f}
	}, func(s string) string { return s }},
	{"z3-5.1.0/eager100", func(f string, t int) []string {
		return []string{"z3-new", fmt.Sprintf("-T:%d", t), "smt.qi.eager_threshold=100", f}
	}, func(s string) string { return s }},
}

var scratchDir string
var scratchOnce sync.Once

func scratch() string {
	scratchOnce.Do(func() {
		d, err := os.MkdirTemp("", "gocv-")
		if err != nil {
			panic(err)
		}
		scratchDir = d
	})
	return scratchDir
}

func cleanupScratch() {
	if scratchDir != "" {
		os.RemoveAll(scratchDir)
	}
}

var fileCounter struct {
	sync.Mutex
	n int
}

// Solve races the installed solvers on one script (which must end with
// (check-sat) and may be followed by (get-model)). The first definitive answer
// (sat / unsat) wins. which selects solvers by index (nil = all).
func Solve(script string, timeoutSec int, which []int) SolverResult {
	if (which == nil || len(which) > 2) && timeoutSec > 4 {
		// stage 1: two quick configurations; most obligations end here
		r := solveWith(script, 3, []int{0, 3})
		if r.Status == "unsat" || r.Status == "sat" {
			return r
		}
		// stage 2: the same goal under fewer assumptions (every quantified assumption dropped). "unsat"
		// there proves the obligation a fortiori; any other answer means nothing and is discarded.
		if rs := relaxedScript(script); rs != script {
			r2 := solveWith(rs, 5, []int{0, 1})
			if os.Getenv("GOCV_DEBUG_RELAX") != "" {
				fmt.Fprintf(os.Stderr, "relaxed: %s %s %.2fs (%d -> %d bytes)\n", r2.Status, r2.Solver, r2.Seconds, len(script), len(rs))
				os.WriteFile(fmt.Sprintf("/tmp/relaxdbg_%d.smt2", len(rs)), []byte(rs), 0o644)
				fmt.Fprintf(os.Stderr, "  raw: %q\n", firstLines(r2.Output, 2))
			}
			if r2.Status == "unsat" {
				r2.Solver += "/ground-core"
				r2.Seconds += r.Seconds
				return r2
			}
		}
		return solveWith(script, timeoutSec, which)
	}
	return solveWith(script, timeoutSec, which)
}

func solveWith(script string, timeoutSec int, which []int) SolverResult {
	fileCounter.Lock()
	fileCounter.n++
	id := fileCounter.n
	fileCounter.Unlock()
	if which == nil {
		which = []int{0, 1, 2, 3, 4, 5}
	}
	ctx, cancel := context.WithCancel(context.Background())
	defer cancel()
	results := make(chan SolverResult, len(which))
	started := 0
	for _, si := range which {
		sp := solvers[si]
		text := sp.transform(script)
		if text == "" {
			continue
		}
		started++
		file := filepath.Join(scratch(), fmt.Sprintf("q%d_%d.smt2", id, si))
		if err := os.WriteFile(file, []byte(text), 0o644); err != nil {
			results <- SolverResult{Status: "error", Solver: sp.name, Output: err.Error()}
			continue
		}
		go func(sp solverSpec, file string) {
			defer os.Remove(file)
			argv := sp.argv(file, timeoutSec)
			c, cancelT := context.WithTimeout(ctx, time.Duration(timeoutSec+2)*time.Second)
			defer cancelT()
			cmd := exec.CommandContext(c, argv[0], argv[1:]...)
			var out bytes.Buffer
			cmd.Stdout = &out
			cmd.Stderr = &out
			t0 := time.Now()
			cmd.Run()
			sec := time.Since(t0).Seconds()
			o := out.String()
			first := strings.TrimSpace(strings.SplitN(o, "\n", 2)[0])
			st := "unknown"
			switch {
			case first == "unsat":
				st = "unsat"
			case first == "sat":
				st = "sat"
			case first == "unknown":
				st = "unknown"
			case strings.Contains(first, "timeout") || c.Err() != nil:
				st = "timeout"
			case strings.HasPrefix(first, "(error") || strings.Contains(o, "error"):
				st = "error"
			}
			results <- SolverResult{Status: st, Solver: sp.name, Seconds: sec, Output: o}
		}(sp, file)
	}
	var last SolverResult
	last.Status = "unknown"
	var errs []string
	total := 0.0
	for i := 0; i < started; i++ {
		r := <-results
		total += r.Seconds
		if r.Status == "unsat" || r.Status == "sat" {
			cancel()
			return r
		}
		if r.Status == "error" {
			errs = append(errs, r.Solver+": "+firstLines(r.Output, 3))
		}
		if last.Status == "unknown" || r.Status == "timeout" {
			last = r
		}
	}
	if len(errs) == started && started > 0 {
		last.Status = "error"
		last.Output = strings.Join(errs, "\n")
	}
	last.Seconds = total
	return last
}

func firstLines(s string, n int) string {
	ls := strings.Split(s, "\n")
	if len(ls) > n {
		ls = ls[:n]
	}
	return strings.Join(ls, "\n")
}

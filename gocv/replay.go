package main

// replayModel: harness classes are added per function shape (see replay_*.go).
func replayModel(vc *VC, ob *Obligation, inputs map[string]string) (bool, map[string]any) {
	for _, h := range replayHarnesses {
		if h.Match(vc, ob) {
			return h.Run(vc, ob, inputs)
		}
	}
	return false, map[string]any{"status": "no replay harness for this function shape; model recorded only"}
}

type replayHarness struct {
	Name  string
	Match func(vc *VC, ob *Obligation) bool
	Run   func(vc *VC, ob *Obligation, inputs map[string]string) (bool, map[string]any)
}

var replayHarnesses []*replayHarness

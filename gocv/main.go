package main

import (
	"fmt"
	"os"
)

func main() {
	if len(os.Args) < 2 {
		fmt.Fprintln(os.Stderr, "usage: gocv <ssa|check|vc|replay|selftest> ...")
		os.Exit(2)
	}
	switch os.Args[1] {
	case "ssa":
		p, err := LoadProgram(repoDir())
		if err != nil {
			fmt.Fprintln(os.Stderr, err)
			os.Exit(2)
		}
		for _, pat := range os.Args[2:] {
			for _, f := range p.FindFuncs(pat) {
				fmt.Println("# " + FuncName(f))
				f.WriteTo(os.Stdout)
			}
		}
	case "check":
		os.Exit(cmdCheck(os.Args[2:]))
	case "vc":
		os.Exit(cmdVC(os.Args[2:]))
	case "replay":
		os.Exit(cmdReplay(os.Args[2:]))
	default:
		fmt.Fprintln(os.Stderr, "unknown command")
		os.Exit(2)
	}
}

package main

import (
	"fmt"
	"os"
	"sort"
	"strings"
)

func main() {
	if len(os.Args) < 2 {
		fmt.Fprintln(os.Stderr, "usage: gocv <ssa|check|vc|replay|selftest> ...")
		os.Exit(2)
	}
	switch os.Args[1] {
	case "ssa":
		p, err := LoadProgram(repoDir())
		if err != nil {
			fmt.Fprintln(os.Stderr, err)
			os.Exit(2)
		}
		for _, pat := range os.Args[2:] {
			for _, f := range p.FindFuncs(pat) {
				fmt.Println("# " + FuncName(f))
				f.WriteTo(os.Stdout)
			}
		}
	case "check":
		os.Exit(cmdCheck(os.Args[2:]))
	case "vc":
		os.Exit(cmdVC(os.Args[2:]))
	case "replay":
		os.Exit(cmdReplay(os.Args[2:]))
	case "funcs":
		// every function of the repository with a body, and whether it is under contract
		p, err := LoadProgram(repoDir())
		if err != nil {
			fmt.Fprintln(os.Stderr, err)
			os.Exit(2)
		}
		specs, err := LoadSpecs(repoDir(), specDir())
		if err != nil {
			fmt.Fprintln(os.Stderr, err)
			os.Exit(2)
		}
		var names []string
		for n, f := range p.Funcs {
			if f.Pkg == nil || !strings.HasPrefix(f.Pkg.Pkg.Path(), modPath) || len(f.Blocks) == 0 {
				continue
			}
			names = append(names, n)
		}
		sort.Strings(names)
		for _, n := range names {
			k := "-"
			if c := specs.Contracts[n]; c != nil {
				k = c.Kind
				if k == "" {
					k = "verified"
				}
				k += " " + strings.Join(c.Props, ",")
			}
			fmt.Printf("%-70s %s\n", n, k)
		}
	default:
		fmt.Fprintln(os.Stderr, "unknown command")
		os.Exit(2)
	}
}

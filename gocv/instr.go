package main

import (
	"fmt"
	"strings"
	"sync"
	"go/token"
	"go/types"
	"math/big"
	"os"

	"golang.org/x/tools/go/ssa"
)

var fileCache = map[string][]byte{}
var fileCacheMu sync.Mutex

func (p *Program) fileData(name string) []byte {
	fileCacheMu.Lock()
	defer fileCacheMu.Unlock()
	if d, ok := fileCache[name]; ok {
		return d
	}
	d, err := os.ReadFile(name)
	if err != nil {
		d = nil
	}
	fileCache[name] = d
	return d
}

func isNonNullDef(v ssa.Value) bool {
	switch v.(type) {
	case *ssa.Alloc, *ssa.FieldAddr, *ssa.IndexAddr, *ssa.Global, *ssa.MakeClosure, *ssa.MakeMap, *ssa.MakeChan, *ssa.Function:
		return true
	}
	return false
}

func (f *frame) nilCheck(v ssa.Value, pos token.Pos) {
	if isNonNullDef(v) {
		return
	}
	f.safetyOb("nil", pos, "nil", Not(Eq(f.val(v), TNull)))
}

func (f *frame) instr(ins ssa.Instruction) {
	vc := f.vc
	switch ins := ins.(type) {
	case *ssa.DebugRef:
	case *ssa.Alloc:
		elem := ins.Type().Underlying().(*types.Pointer).Elem()
		if f.isLocalCell(ins) {
			// a local variable whose address never escapes: kept out of the memory arrays
			addr := Term{"@local:" + f.prefix + "." + ins.Name(), SRef}
			f.vals[ins] = addr
			f.storeAt(addr, elem, vc.zero(elem), token.NoPos, ins)
			return
		}
		ref := vc.newObj(f.cur, ins.Name())
		f.recordMod("$alloc")
		f.setVal(ins, ref)
		f.zeroInit(f.vals[ins], elem)
	case *ssa.FieldAddr:
		if b := f.val(ins.X); strings.HasPrefix(b.S, "@local:") {
			f.vals[ins] = Term{fmt.Sprintf("%s/f%d", b.S, ins.Field), SRef}
			return
		}
		f.nilCheck(ins.X, ins.Pos())
		f.setVal(ins, vc.fld(f.val(ins.X), ins.Field))
		vc.assume(Eq(App(SInt, "root", f.vals[ins]), vc.rootOf(f.val(ins.X))))
	case *ssa.Field:
		f.setVal(ins, vc.structField(f.val(ins.X), ins.X.Type(), ins.Field))
	case *ssa.IndexAddr:
		idx := f.idxVal(ins.Index)
		switch u := ins.X.Type().Underlying().(type) {
		case *types.Slice:
			s := f.val(ins.X)
			f.safetyOb("index", ins.Pos(), "index", And(vc.le(vc.idxLit(0), idx, true), vc.lt(idx, vc.sliceLen(s), true)))
			f.setVal(ins, vc.elemAt(vc.sliceArr(s), vc.sliceOff(s), idx))
			vc.assume(Eq(App(SInt, "root", f.vals[ins]), vc.rootOf(vc.sliceArr(s))))
		case *types.Pointer:
			arr := u.Elem().Underlying().(*types.Array)
			if b := f.val(ins.X); strings.HasPrefix(b.S, "@local:") {
				c := ins.Index.(*ssa.Const)
				f.vals[ins] = Term{fmt.Sprintf("%s/e%d", b.S, c.Int64()), SRef}
				return
			}
			f.nilCheck(ins.X, ins.Pos())
			f.safetyOb("index", ins.Pos(), "index", And(vc.le(vc.idxLit(0), idx, true), vc.lt(idx, vc.idxLit(arr.Len()), true)))
			f.setVal(ins, vc.elem(f.val(ins.X), idx))
			vc.assume(Eq(App(SInt, "root", f.vals[ins]), vc.rootOf(f.val(ins.X))))
		default:
			vc.unsupp("IndexAddr on %s", ins.X.Type())
			f.havocVal(ins)
		}
	case *ssa.Index:
		idx := f.idxVal(ins.Index)
		switch u := ins.X.Type().Underlying().(type) {
		case *types.Array:
			f.safetyOb("index", ins.Pos(), "index", And(vc.le(vc.idxLit(0), idx, true), vc.lt(idx, vc.idxLit(u.Len()), true)))
			f.setVal(ins, Select(f.val(ins.X), idx, vc.info(u.Elem()).sort))
		case *types.Basic:
			s := f.val(ins.X)
			f.safetyOb("index", ins.Pos(), "index", And(vc.le(vc.idxLit(0), idx, true), vc.lt(idx, vc.strLen(s), true)))
			f.setVal(ins, App(vc.intSort(8), "str.at_", s, idx))
		default:
			vc.unsupp("Index on %s", ins.X.Type())
			f.havocVal(ins)
		}
	case *ssa.Lookup:
		switch u := ins.X.Type().Underlying().(type) {
		case *types.Map:
			m, k := f.val(ins.X), f.val(ins.Index)
			v := vc.mapLookup(f.cur, m, k, u)
			if ins.CommaOk {
				f.setVal(ins, vc.mkTuple(ins.Type().(*types.Tuple), []Term{v, And(Not(Eq(m, TNull)), vc.mapHas(f.cur, m, k, u))}))
			} else {
				f.setVal(ins, Ite(Eq(m, TNull), vc.zero(u.Elem()), v))
			}
			if vc.mode == ModeInt {
				vc.assume(vc.typeInv(vc.mapLookup(f.cur, m, k, u), u.Elem()))
			}
		case *types.Basic:
			idx := f.idxVal(ins.Index)
			s := f.val(ins.X)
			f.safetyOb("index", ins.Pos(), "index", And(vc.le(vc.idxLit(0), idx, true), vc.lt(idx, vc.strLen(s), true)))
			f.setVal(ins, App(vc.intSort(8), "str.at_", s, idx))
			if vc.mode == ModeInt {
				vc.assume(vc.inRange(f.vals[ins], 8, false))
			}
		default:
			vc.unsupp("Lookup on %s", ins.X.Type())
			f.havocVal(ins)
		}
	case *ssa.Store:
		if a := f.val(ins.Addr); strings.HasPrefix(a.S, "@local:") {
			f.storeAt(a, ins.Val.Type(), f.val(ins.Val), ins.Pos(), ins.Addr)
			return
		}
		f.nilCheck(ins.Addr, ins.Pos())
		f.store(f.val(ins.Addr), ins.Val.Type(), f.val(ins.Val), ins.Pos(), ins.Addr)
	case *ssa.UnOp:
		f.unop(ins)
	case *ssa.BinOp:
		f.binop(ins)
	case *ssa.Convert:
		f.convert(ins)
	case *ssa.ChangeType:
		x := f.val(ins.X)
		f.vals[ins] = Term{x.S, vc.info(ins.Type()).sort}
	case *ssa.ChangeInterface:
		f.vals[ins] = f.val(ins.X)
	case *ssa.MakeInterface:
		f.setVal(ins, f.makeIface(ins.X))
	case *ssa.TypeAssert:
		f.typeAssert(ins)
	case *ssa.Extract:
		tup := ins.Tuple.Type().(*types.Tuple)
		f.setVal(ins, vc.tupleField(f.val(ins.Tuple), tup, ins.Index))
	case *ssa.Slice:
		f.sliceOp(ins)
	case *ssa.MakeSlice:
		ln, cp := f.idxVal(ins.Len), f.idxVal(ins.Cap)
		f.safetyOb("makeslice", ins.Pos(), "call", And(vc.le(vc.idxLit(0), ln, true), vc.le(ln, cp, true)))
		ref := vc.newObj(f.cur, ins.Name())
		f.recordMod("$alloc")
		f.setVal(ins, vc.mkSlice(ref, vc.idxLit(0), ln, cp))
		f.zeroInitElems(ref, ins.Type().Underlying().(*types.Slice).Elem())
		vc.assume(vc.le(cp, vc.intLit(new(big.Int).Lsh(big.NewInt(1), 40), 64), true))
	case *ssa.MakeMap:
		ref := vc.newObj(f.cur, ins.Name())
		f.recordMod("$alloc")
		f.setVal(ins, ref)
		mt := ins.Type().Underlying().(*types.Map)
		_, d := vc.mapNames(mt)
		ks := vc.info(mt.Key()).sort
		vc.assume(Eq(Select(f.cur.get(vc, d), f.vals[ins], ArrSort(ks, SBool)), Term{fmt.Sprintf("((as const %s) false)", ArrSort(ks, SBool)), ArrSort(ks, SBool)}))
	case *ssa.MapUpdate:
		mt := ins.Map.Type().Underlying().(*types.Map)
		m := f.val(ins.Map)
		f.safetyOb("nil-map-write", ins.Pos(), "index", Not(Eq(m, TNull)))
		f.frameCheckMap(m, ins.Pos())
		c, d := vc.mapNames(mt)
		ks, vs := vc.info(mt.Key()).sort, vc.info(mt.Elem()).sort
		k, v := f.val(ins.Key), f.val(ins.Value)
		oc, od := f.cur.get(vc, c), f.cur.get(vc, d)
		f.cur[c] = vc.define(stateSym(c), Store(oc, m, Store(Select(oc, m, ArrSort(ks, vs)), k, v)))
		f.cur[d] = vc.define(stateSym(d), Store(od, m, Store(Select(od, m, ArrSort(ks, SBool)), k, TTrue)))
		f.recordMod(c, d)
	case *ssa.MakeChan:
		ref := vc.newObj(f.cur, ins.Name())
		f.recordMod("$alloc")
		f.setVal(ins, ref)
	case *ssa.MakeClosure:
		ref := vc.newObj(f.cur, ins.Name())
		f.recordMod("$alloc")
		f.setVal(ins, ref)
		vc.closures[ins] = ins
		vc.closureFrames[ins] = f
	case *ssa.Phi:
	case *ssa.If, *ssa.Jump:
	case *ssa.Return:
		var vals []Term
		for _, r := range ins.Results {
			vals = append(vals, f.val(r))
		}
		f.rets = append(f.rets, retRec{reach: f.reach, vals: vals, st: f.cur.clone()})
		if f.top {
			f.atReturn(ins, vals)
		}
	case *ssa.Panic:
		if f.safety {
			f.oblige("panic", f.srcText(ins.Pos(), "call"), nil, ins.Pos(), TFalse)
		}
		f.reach = TFalse
	case *ssa.Call:
		f.call(ins, &ins.Call, ins)
	case *ssa.Defer:
		flag := vc.define(f.prefix+"_defer", f.reach)
		f.defers = append(f.defers, deferRec{flag: flag, instr: ins, common: &ins.Call})
	case *ssa.RunDefers:
		for i := len(f.defers) - 1; i >= 0; i-- {
			d := f.defers[i]
			saveReach, saveSt := f.reach, f.cur.clone()
			f.reach = vc.define(f.prefix+"_r", And(f.reach, d.flag))
			f.call(d.instr, d.common, nil)
			// merge: effect only if the defer was registered
			for k, v := range f.cur {
				o := saveSt.get(vc, k)
				if o.S != v.S {
					f.cur[k] = vc.define(stateSym(k), Ite(d.flag, v, o))
				}
			}
			f.reach = saveReach
		}
	case *ssa.Go:
		f.goStmt(ins)
	case *ssa.Send:
		f.chanEvent("send", ins.Chan, ins, ins.X)
	case *ssa.Select:
		f.selectStmt(ins)
	case *ssa.Range:
		f.vals[ins] = f.val(ins.X) // iterator = the collection
		if f.vals[ins].Sort != SRef && f.vals[ins].Sort != SStr {
			vc.unsupp("range over %s", ins.X.Type())
		}
		f.rangeOf[ins] = ins.X
	case *ssa.Next:
		f.next(ins)
	case *ssa.SliceToArrayPointer:
		s := f.val(ins.X)
		f.setVal(ins, vc.elem(vc.sliceArr(s), vc.sliceOff(s)))
		vc.unsupp("SliceToArrayPointer")
	default:
		vc.unsupp("%s: instruction %T", FuncName(f.fn), ins)
		if v, ok := ins.(ssa.Value); ok {
			f.havocVal(v)
		}
	}
}

func (f *frame) idxVal(v ssa.Value) Term {
	if v == nil {
		return f.vc.idxLit(0)
	}
	ti := f.vc.info(v.Type())
	return f.vc.convInt(f.val(v), ti.bits, ti.signed, 64, true)
}

// zeroInit: a freshly allocated cell holds the zero value.
func (f *frame) zeroInit(ref Term, t types.Type) {
	vc := f.vc
	vc.leaves(ref, t, func(r Term, ti *typeInfo, lt types.Type) {
		if ti.kind == "array" {
			f.zeroInitElems(r, ti.arr.Elem())
			return
		}
		vc.assume(Eq(Select(f.cur.get(vc, vc.memName(ti)), r, ti.sort), vc.zero(lt)))
	})
}

// zeroInitElems: every element cell under ref holds the zero value.
func (f *frame) zeroInitElems(ref Term, elem types.Type) {
	vc := f.vc
	q := Term{"qz", vc.idxSort()}
	vc.inQuant++
	vc.leaves(vc.elem(ref, q), elem, func(r Term, ti *typeInfo, lt types.Type) {
		if ti.kind == "array" {
			vc.unsupp("zero-init of nested large array")
			return
		}
		vc.assume(Forall([]Term{q}, Eq(Select(f.cur.get(vc, vc.memName(ti)), r, ti.sort), vc.zero(lt))))
	})
	vc.inQuant--
}

func (f *frame) store(addr Term, t types.Type, v Term, pos token.Pos, addrVal ssa.Value) {
	vc := f.vc
	if f.top || f.depth > 0 {
		f.frameCheck(addr, t, pos, addrVal)
	}
	keys := map[string]bool{}
	vc.memKeys(t, keys)
	for k := range keys {
		f.recordMod(k)
	}
	vc.storeMem(f.cur, addr, t, v)
}

func (f *frame) unop(ins *ssa.UnOp) {
	vc := f.vc
	switch ins.Op {
	case token.MUL:
		if a := f.val(ins.X); strings.HasPrefix(a.S, "@local:") {
			f.setVal(ins, f.loadLocal(f.cur, a, ins.Type()))
			return
		}
		f.nilCheck(ins.X, ins.Pos())
		if g := globalOf(ins.X); g != nil && vc.prog.Frozen[g] && !isInitFunc(vc.fn) {
			// frozen global: its value is the one the package initialiser left (entry state)
			vc.usedGlobals[g] = true
			f.setVal(ins, vc.load(State{}, f.val(ins.X), ins.Type()))
			return
		}
		f.setVal(ins, vc.load(f.cur, f.val(ins.X), ins.Type()))
	case token.NOT:
		f.setVal(ins, Not(f.val(ins.X)))
	case token.SUB:
		ti := vc.info(ins.Type())
		if ti.kind != "int" {
			vc.unsupp("negation of %s", ins.Type())
			f.havocVal(ins)
			return
		}
		if vc.mode == ModeBV {
			f.setVal(ins, App(ti.sort, "bvneg", f.val(ins.X)))
		} else {
			f.setVal(ins, App(SInt, "-", f.val(ins.X)))
		}
	case token.XOR:
		ti := vc.info(ins.Type())
		if vc.mode == ModeBV {
			f.setVal(ins, App(ti.sort, "bvnot", f.val(ins.X)))
		} else {
			vc.needBitFns = true
			f.setVal(ins, App(SInt, "bitxor_", f.val(ins.X), IntLit(-1)))
			vc.assume(vc.typeInv(f.vals[ins], ins.Type()))
		}
	case token.ARROW:
		f.chanEvent("recv", ins.X, ins, nil)
	default:
		vc.unsupp("unary %s", ins.Op)
		f.havocVal(ins)
	}
}

func (f *frame) binop(ins *ssa.BinOp) {
	vc := f.vc
	x, y := f.val(ins.X), f.val(ins.Y)
	xt := vc.info(ins.X.Type())
	switch ins.Op {
	case token.EQL, token.NEQ:
		var eq Term
		if x.Sort != y.Sort {
			vc.unsupp("comparison of different sorts %s / %s", x.Sort, y.Sort)
			eq = vc.freshConst("cmp", SBool)
		} else {
			eq = vc.eqVal(x, y)
		}
		if ins.Op == token.NEQ {
			eq = Not(eq)
		}
		f.setVal(ins, eq)
		return
	case token.LSS, token.LEQ, token.GTR, token.GEQ:
		if xt.kind == "int" {
			f.setVal(ins, vc.cmp(ins.Op.String(), x, y, xt.signed))
			return
		}
		if xt.kind == "str" {
			vc.needStrLess = true
			lt := func(a, b Term) Term { return App(SBool, "str.lt_", a, b) }
			switch ins.Op {
			case token.LSS:
				f.setVal(ins, lt(x, y))
			case token.GTR:
				f.setVal(ins, lt(y, x))
			case token.LEQ:
				f.setVal(ins, Not(lt(y, x)))
			case token.GEQ:
				f.setVal(ins, Not(lt(x, y)))
			}
			return
		}
		f.havocVal(ins)
		return
	}
	rt := vc.info(ins.Type())
	if rt.kind == "str" && ins.Op == token.ADD {
		r := App(SStr, "str.concat_", x, y)
		f.setVal(ins, r)
		vc.assume(Eq(vc.strLen(f.vals[ins]), vc.add(vc.strLen(x), vc.strLen(y))))
		return
	}
	if rt.kind != "int" {
		f.havocVal(ins)
		return
	}
	switch ins.Op {
	case token.SHL, token.SHR:
		yt := vc.info(ins.Y.Type())
		if vc.mode == ModeBV {
			var cnt Term
			if yt.bits > rt.bits {
				// saturate large counts
				big_ := vc.cmp(">=", y, vc.intLit(big.NewInt(int64(rt.bits)), yt.bits), false)
				cnt = Ite(big_, vc.intLit(big.NewInt(int64(rt.bits)), rt.bits), vc.convInt(y, yt.bits, false, rt.bits, false))
			} else {
				cnt = vc.convInt(y, yt.bits, false, rt.bits, false)
			}
			f.setVal(ins, vc.shift(ins.Op.String(), x, cnt, rt))
		} else {
			// shifts by a constant are multiplications / divisions
			if c, ok := ins.Y.(*ssa.Const); ok && c.Value != nil {
				n, _ := constantInt(c)
				if n >= 0 && n < 63 {
					p := IntLit(int64(1) << uint(n))
					if ins.Op == token.SHL {
						f.setVal(ins, f.wrapInt(App(SInt, "*", x, p), rt))
					} else {
						f.setVal(ins, App(SInt, "div", x, p))
					}
					return
				}
			}
			f.setVal(ins, vc.shift(ins.Op.String(), x, y, rt))
			vc.assume(vc.typeInv(f.vals[ins], ins.Type()))
		}
		return
	case token.QUO, token.REM:
		f.safetyOb("div0", ins.Pos(), "arith", Not(Eq(y, vc.intLit(bigZero, rt.bits))))
	}
	r := vc.arith(ins.Op.String(), x, y, rt)
	if vc.mode == ModeInt {
		switch ins.Op {
		case token.ADD, token.SUB, token.MUL:
			r = f.wrapInt(r, rt)
		case token.AND, token.OR, token.XOR, token.AND_NOT:
			f.setVal(ins, r)
			vc.assume(vc.typeInv(f.vals[ins], ins.Type()))
			return
		}
	}
	f.setVal(ins, r)
}

// wrapInt: Go integer arithmetic wraps around (defined behaviour, no panic); in
// int mode the mathematical result is folded back into the type's range, so the
// encoding is exact and nothing is "treated as mathematical".
func (f *frame) wrapInt(r Term, rt *typeInfo) Term {
	vc := f.vc
	r = vc.define(f.prefix+"_ar", r)
	if vc.con == nil || !vc.con.WrapArith {
		// default: prove that the operation does not wrap (obligation kind "overflow"), then the
		// mathematical result is the Go result. Functions that rely on wrap-around say `overflow wrap`.
		ins := f.curInstr()
		f.safetyOb("overflow", ins.Pos(), "arith", vc.inRange(r, rt.bits, rt.signed))
		return r
	}
	// convInt from an unbounded source: reuse the wrap logic with a wider "from" range
	return vc.convInt(r, 200, true, rt.bits, rt.signed)
}

func constantInt(c *ssa.Const) (int64, bool) {
	if c.Value == nil {
		return 0, false
	}
	return c.Int64(), true
}

func (f *frame) convert(ins *ssa.Convert) {
	vc := f.vc
	from, to := vc.info(ins.X.Type()), vc.info(ins.Type())
	x := f.val(ins.X)
	switch {
	case from.kind == "int" && to.kind == "int":
		f.setVal(ins, vc.convInt(x, from.bits, from.signed, to.bits, to.signed))
	case from.kind == "ref" && to.kind == "ref":
		f.vals[ins] = x
	case from.kind == "ref" && to.kind == "int":
		f.setVal(ins, vc.convInt(vc.addrOf(x), 64, false, to.bits, to.signed))
		if vc.mode == ModeInt {
			vc.assume(vc.inRange(f.vals[ins], to.bits, to.signed))
		}
	case from.kind == "int" && to.kind == "ref":
		f.setVal(ins, App(SRef, "ptr_of", vc.convInt(x, from.bits, from.signed, 64, false)))
	case from.kind == "str" && to.kind == "slice":
		ref := vc.newObj(f.cur, ins.Name())
		f.recordMod("$alloc")
		n := vc.strLen(x)
		f.setVal(ins, vc.mkSlice(ref, vc.idxLit(0), n, n))
		if b, ok := ins.Type().Underlying().(*types.Slice).Elem().Underlying().(*types.Basic); ok && b.Kind() == types.Uint8 {
			q := Term{"qs", vc.idxSort()}
			ti8 := vc.info(types.Typ[types.Uint8])
			vc.assume(Forall([]Term{q}, Implies(And(vc.le(vc.idxLit(0), q, true), vc.lt(q, n, true)),
				Eq(Select(f.cur.get(vc, vc.memName(ti8)), vc.elem(ref, q), ti8.sort), App(ti8.sort, "str.at_", x, q)))))
		}
	case from.kind == "slice" && to.kind == "str":
		vc.needStrOf = true
		t := vc.freshConst(f.prefix+"_"+ins.Name(), SStr)
		f.vals[ins] = t
		vc.assume(Eq(vc.strLen(t), vc.sliceLen(x)))
		if b, ok := ins.X.Type().Underlying().(*types.Slice).Elem().Underlying().(*types.Basic); ok && b.Kind() == types.Uint8 {
			q := Term{"qs", vc.idxSort()}
			ti8 := vc.info(types.Typ[types.Uint8])
			vc.assume(Forall([]Term{q}, Implies(And(vc.le(vc.idxLit(0), q, true), vc.lt(q, vc.sliceLen(x), true)),
				Eq(App(ti8.sort, "str.at_", t, q), Select(f.cur.get(vc, vc.memName(ti8)), vc.elemAt(vc.sliceArr(x), vc.sliceOff(x), q), ti8.sort)))))
		}
	case from.kind == "int" && to.kind == "str":
		t := vc.freshConst(f.prefix+"_"+ins.Name(), SStr)
		f.vals[ins] = t
		vc.assume(vc.le(vc.idxLit(0), vc.strLen(t), true))
	default:
		if from.sort == to.sort {
			f.vals[ins] = x
			return
		}
		// floats etc.
		f.havocVal(ins)
	}
}

func (f *frame) boxValue(x Term, t types.Type) Term {
	vc := f.vc
	ti := vc.info(t)
	switch ti.kind {
	case "ref":
		return x
	case "int":
		return App(SRef, "boxi", vc.convInt(x, ti.bits, ti.signed, 64, ti.signed))
	case "str":
		return App(SRef, "boxs", x)
	case "bool":
		return App(SRef, "boxb", x)
	}
	// composite: boxed in a fresh object
	ref := vc.newObj(f.cur, "box")
	f.recordMod("$alloc")
	ref = vc.define(f.prefix+"_box", ref)
	keys := map[string]bool{}
	vc.memKeys(t, keys)
	for k := range keys {
		f.recordMod(k)
	}
	vc.storeMem(f.cur, ref, t, x)
	return ref
}

func (f *frame) unboxValue(r Term, t types.Type) Term {
	vc := f.vc
	ti := vc.info(t)
	switch ti.kind {
	case "ref":
		return r
	case "int":
		return vc.convInt(App(vc.idxSort(), "bival", r), 64, ti.signed, ti.bits, ti.signed)
	case "str":
		return App(SStr, "bsval", r)
	case "bool":
		return App(SBool, "bbval", r)
	}
	return vc.load(f.cur, r, t)
}

func (f *frame) makeIface(x ssa.Value) Term {
	vc := f.vc
	if _, ok := x.Type().Underlying().(*types.Interface); ok {
		return f.val(x)
	}
	return App(SIface, "mkiface", IntLit(int64(vc.typeID(x.Type()))), f.boxValue(f.val(x), x.Type()))
}

func (f *frame) typeAssert(ins *ssa.TypeAssert) {
	vc := f.vc
	x := f.val(ins.X)
	var ok, v Term
	if _, isIface := ins.AssertedType.Underlying().(*types.Interface); isIface {
		// dynamic type implements the interface: unknown, but nil never does
		okc := vc.freshConst(f.prefix+"_taok", SBool)
		ok = And(okc, Not(Eq(x, Term{"nil_iface", SIface})))
		v = x
	} else {
		ok = Eq(App(SInt, "ityp", x), IntLit(int64(vc.typeID(ins.AssertedType))))
		v = f.unboxValue(App(SRef, "ival", x), ins.AssertedType)
	}
	if ins.CommaOk {
		tup := ins.Type().(*types.Tuple)
		f.setVal(ins, vc.mkTuple(tup, []Term{Ite(ok, v, vc.zero(ins.AssertedType)), ok}))
		return
	}
	f.safetyOb("typeassert", ins.Pos(), "typeassert", ok)
	f.setVal(ins, v)
}

func (f *frame) sliceOp(ins *ssa.Slice) {
	vc := f.vc
	x := f.val(ins.X)
	z := vc.idxLit(0)
	lo := z
	if ins.Low != nil {
		lo = f.idxVal(ins.Low)
	}
	switch u := ins.X.Type().Underlying().(type) {
	case *types.Slice:
		hi := vc.sliceLen(x)
		if ins.High != nil {
			hi = f.idxVal(ins.High)
		}
		cp := vc.sliceCap(x)
		max := cp
		if ins.Max != nil {
			max = f.idxVal(ins.Max)
		}
		f.safetyOb("slice", ins.Pos(), "slice", And(vc.le(z, lo, true), vc.le(lo, hi, true), vc.le(hi, max, true), vc.le(max, cp, true)))
		f.setVal(ins, vc.mkSlice(vc.sliceArr(x), vc.add(vc.sliceOff(x), lo), vc.sub(hi, lo), vc.sub(max, lo)))
	case *types.Basic: // string
		hi := vc.strLen(x)
		if ins.High != nil {
			hi = f.idxVal(ins.High)
		}
		f.safetyOb("slice", ins.Pos(), "slice", And(vc.le(z, lo, true), vc.le(lo, hi, true), vc.le(hi, vc.strLen(x), true)))
		vc.needSubstr = true
		r := App(SStr, "str.sub_", x, lo, hi)
		f.setVal(ins, r)
		vc.assume(Eq(vc.strLen(f.vals[ins]), vc.sub(hi, lo)))
	case *types.Pointer: // *array
		arr := u.Elem().Underlying().(*types.Array)
		n := vc.idxLit(arr.Len())
		hi := n
		if ins.High != nil {
			hi = f.idxVal(ins.High)
		}
		max := n
		if ins.Max != nil {
			max = f.idxVal(ins.Max)
		}
		f.nilCheck(ins.X, ins.Pos())
		f.safetyOb("slice", ins.Pos(), "slice", And(vc.le(z, lo, true), vc.le(lo, hi, true), vc.le(hi, max, true), vc.le(max, n, true)))
		f.setVal(ins, vc.mkSlice(x, lo, vc.sub(hi, lo), vc.sub(max, lo)))
	default:
		vc.unsupp("slice of %s", ins.X.Type())
		f.havocVal(ins)
	}
}

func (f *frame) next(ins *ssa.Next) {
	vc := f.vc
	tup := ins.Type().(*types.Tuple)
	ok := vc.freshConst(f.prefix+"_nextok", SBool)
	var k, v Term
	src := f.rangeOf[ins.Iter]
	if ins.IsString {
		k = vc.freshConst(f.prefix+"_nextk", vc.idxSort())
		v = vc.freshConst(f.prefix+"_nextv", vc.intSort(32))
		if src != nil {
			s := f.val(src)
			vc.assume(Implies(ok, And(vc.le(vc.idxLit(0), k, true), vc.lt(k, vc.strLen(s), true))))
		}
		if vc.mode == ModeInt {
			vc.assume(vc.inRange(v, 32, true))
		}
	} else {
		mt := src.Type().Underlying().(*types.Map)
		m := f.val(src)
		k = vc.freshConst(f.prefix+"_nextk", vc.info(mt.Key()).sort)
		vc.assume(vc.typeInv(k, mt.Key()))
		vc.assume(Implies(ok, And(Not(Eq(m, TNull)), vc.mapHas(f.cur, m, k, mt))))
		v = vc.mapLookup(f.cur, m, k, mt)
		if tup.At(1).Type() != nil {
			if _, isInvalid := tup.At(1).Type().(*types.Basic); isInvalid && tup.At(1).Type().(*types.Basic).Kind() == types.Invalid {
				k = vc.zero(tup.At(1).Type())
			}
		}
	}
	// the tuple's component sorts may be "invalid" when unused
	var fields []Term
	fields = append(fields, ok)
	for i, t := range []Term{k, v} {
		want := vc.info(tup.At(i + 1).Type()).sort
		if t.Sort != want {
			t = vc.freshConst(f.prefix+"_nx", want)
		}
		fields = append(fields, t)
	}
	f.setVal(ins, vc.mkTuple(tup, fields))
}

// globalOf: the package-level variable an address is derived from (nil if none).
func globalOf(v ssa.Value) *ssa.Global {
	for i := 0; i < 8; i++ {
		switch x := v.(type) {
		case *ssa.Global:
			return x
		case *ssa.FieldAddr:
			v = x.X
		case *ssa.IndexAddr:
			if _, ok := x.X.Type().Underlying().(*types.Pointer); ok {
				v = x.X
			} else {
				return nil
			}
		default:
			return nil
		}
	}
	return nil
}

// eqVal: equality of two values; comparison with the empty string is a length test
// (strings are an opaque sort: this is the one extensionality fact needed).
func (vc *VC) eqVal(x, y Term) Term {
	if x.Sort == SStr {
		if e, ok := vc.strLits[""]; ok {
			if x.S == e.S {
				return Eq(vc.strLen(y), vc.idxLit(0))
			}
			if y.S == e.S {
				return Eq(vc.strLen(x), vc.idxLit(0))
			}
		}
	}
	return Eq(x, y)
}

// ---- local cells: variables whose address does not escape are state variables of their own ----

// isLocalCell: every use of the allocation (through field / constant-index addressing) is a
// load, a store to it, or a debug reference.
func (f *frame) isLocalCell(a *ssa.Alloc) bool {
	if v, ok := f.localCells[a]; ok {
		return v
	}
	elem := a.Type().Underlying().(*types.Pointer).Elem()
	ok := f.vc.smallComposite(elem, 0)
	var check func(v ssa.Value, depth int) bool
	check = func(v ssa.Value, depth int) bool {
		if depth > 6 {
			return false
		}
		refs := v.Referrers()
		if refs == nil {
			return true
		}
		for _, r := range *refs {
			switch r := r.(type) {
			case *ssa.UnOp:
				if r.Op != token.MUL {
					return false
				}
			case *ssa.Store:
				if r.Val == v {
					return false
				}
			case *ssa.FieldAddr:
				if !check(r, depth+1) {
					return false
				}
			case *ssa.IndexAddr:
				if r.X != v {
					return false
				}
				if _, isConst := r.Index.(*ssa.Const); !isConst {
					return false
				}
				if !check(r, depth+1) {
					return false
				}
			case *ssa.DebugRef:
			default:
				return false
			}
		}
		return true
	}
	ok = ok && check(a, 0)
	f.localCells[a] = ok
	return ok
}

// smallComposite: the type expands into a bounded number of leaf cells.
func (vc *VC) smallComposite(t types.Type, depth int) bool {
	if depth > 5 {
		return false
	}
	ti := vc.info(t)
	switch ti.kind {
	case "struct":
		for i := 0; i < ti.st.NumFields(); i++ {
			if !vc.smallComposite(ti.st.Field(i).Type(), depth+1) {
				return false
			}
		}
		return true
	case "array":
		return ti.arr.Len() <= 8 && vc.smallComposite(ti.arr.Elem(), depth+1)
	case "tuple", "opaque":
		return false
	}
	return true
}

func (f *frame) localVar(addr Term, ti *typeInfo) string {
	name := "L." + strings.TrimPrefix(addr.S, "@local:")
	f.vc.registerState(name, ti.sort)
	return name
}

func (f *frame) loadLocal(st State, addr Term, t types.Type) Term {
	vc := f.vc
	ti := vc.info(t)
	switch ti.kind {
	case "struct":
		var fs []Term
		for i := 0; i < ti.st.NumFields(); i++ {
			fs = append(fs, f.loadLocal(st, Term{fmt.Sprintf("%s/f%d", addr.S, i), SRef}, ti.st.Field(i).Type()))
		}
		return vc.mkStruct(t, fs)
	case "array":
		arr := Term{fmt.Sprintf("((as const %s) %s)", ti.sort, vc.zero(ti.arr.Elem()).S), ti.sort}
		for i := int64(0); i < ti.arr.Len(); i++ {
			arr = Store(arr, vc.idxLit(i), f.loadLocal(st, Term{fmt.Sprintf("%s/e%d", addr.S, i), SRef}, ti.arr.Elem()))
		}
		return arr
	}
	return st.get(vc, f.localVar(addr, ti))
}

func (f *frame) storeAt(addr Term, t types.Type, v Term, pos token.Pos, addrVal ssa.Value) {
	vc := f.vc
	ti := vc.info(t)
	switch ti.kind {
	case "struct":
		for i := 0; i < ti.st.NumFields(); i++ {
			f.storeAt(Term{fmt.Sprintf("%s/f%d", addr.S, i), SRef}, ti.st.Field(i).Type(), vc.structField(v, t, i), pos, addrVal)
		}
		return
	case "array":
		ei := vc.info(ti.arr.Elem())
		for i := int64(0); i < ti.arr.Len(); i++ {
			f.storeAt(Term{fmt.Sprintf("%s/e%d", addr.S, i), SRef}, ti.arr.Elem(), Select(v, vc.idxLit(i), ei.sort), pos, addrVal)
		}
		return
	}
	name := f.localVar(addr, ti)
	f.cur[name] = vc.define(stateSym(name), v)
	f.recordMod(name)
}

package main

import (
	"fmt"
	"os"
	"go/ast"
	"go/constant"
	"go/token"
	"go/types"
	"math/big"
	"sort"
	"strings"

	"golang.org/x/tools/go/ssa"
)

var bigZero = big.NewInt(0)

type nameDef struct {
	val    ssa.Value
	isAddr bool
	block  *ssa.BasicBlock
	idx    int
	obj    types.Object
}

type deferRec struct {
	flag   Term
	instr  *ssa.Defer
	common *ssa.CallCommon
}

type retRec struct {
	reach Term
	vals  []Term
	st    State
}

// frame is one activation being translated (the function under contract, or an
// inlined callee).
type frame struct {
	vc     *VC
	fn     *ssa.Function
	con    *Contract
	depth  int
	prefix string

	vals     map[ssa.Value]Term
	reachOut map[*ssa.BasicBlock]Term
	stOut    map[*ssa.BasicBlock]State
	loops    map[*ssa.BasicBlock]*loopInfo
	order    []*ssa.BasicBlock
	names    map[string][]nameDef

	cur      State
	reach    Term
	curBlock *ssa.BasicBlock
	curIdx   int
	old      State
	defers   []deferRec
	rets     []retRec
	top      bool
	safety   bool
	entryAlloc Term

	loopMeasure map[*loopInfo]Term
	headerState map[*loopInfo]State
	headerReach map[*loopInfo]Term
	hdrRange    map[*loopInfo][2]int
	localCells  map[*ssa.Alloc]bool
	regionOut   map[*ssa.BasicBlock]int
	entryRegion int
	rangeOf     map[ssa.Value]ssa.Value
	selects     map[*ssa.Select]bool
	pendingAlloc []pendingAlloc
	appendLens   []Term // lengths at earlier small-literal appends (loop-free functions only)
}

func (vc *VC) newFrame(fn *ssa.Function, con *Contract, depth int) *frame {
	f := &frame{vc: vc, fn: fn, con: con, depth: depth,
		vals: map[ssa.Value]Term{}, reachOut: map[*ssa.BasicBlock]Term{}, stOut: map[*ssa.BasicBlock]State{},
		names: map[string][]nameDef{}, loopMeasure: map[*loopInfo]Term{}, headerState: map[*loopInfo]State{}, headerReach: map[*loopInfo]Term{}, hdrRange: map[*loopInfo][2]int{},
		rangeOf: map[ssa.Value]ssa.Value{}, selects: map[*ssa.Select]bool{}, regionOut: map[*ssa.BasicBlock]int{}, localCells: map[*ssa.Alloc]bool{}}
	vc.nfresh++
	f.prefix = fmt.Sprintf("f%d", vc.nfresh)
	loops, err := findLoops(fn)
	if err != nil {
		vc.unsupp("%s: %v", FuncName(fn), err)
	}
	f.loops = loops
	f.order = topoOrder(fn, loops)
	for _, b := range fn.Blocks {
		for i, ins := range b.Instrs {
			switch ins := ins.(type) {
			case *ssa.Phi:
				if ins.Comment != "" {
					f.names[ins.Comment] = append(f.names[ins.Comment], nameDef{val: ins, block: b, idx: i})
					if ins.Comment == "rangeint.iter" {
						// `for range n`: the hidden counter, spelled rangeiter in contracts
						f.names["rangeiter"] = append(f.names["rangeiter"], nameDef{val: ins, block: b, idx: i})
					}
				}
			case *ssa.Alloc:
				// a variable that lives in a cell (address taken or captured by a closure)
				switch ins.Comment {
				case "", "complit", "varargs", "slicelit", "makeslice", "new", "range", "typeswitch":
				default:
					if !strings.Contains(ins.Comment, " ") && !strings.Contains(ins.Comment, ".") {
						f.names[ins.Comment] = append(f.names[ins.Comment], nameDef{val: ins, isAddr: true, block: b, idx: i})
					}
				}
			case *ssa.Slice:
				// the slice made from a composite literal (`for _, v := range []T{...}`): spelled slicelit
				if a, ok := ins.X.(*ssa.Alloc); ok && a.Comment == "slicelit" {
					f.names["slicelit"] = append(f.names["slicelit"], nameDef{val: ins, block: b, idx: i})
				}
			case *ssa.DebugRef:
				if id, ok := ins.Expr.(*ast.Ident); ok {
					f.names[id.Name] = append(f.names[id.Name], nameDef{val: ins.X, isAddr: ins.IsAddr, block: b, idx: i})
				}
			}
		}
	}
	if con != nil {
		for id, ls := range con.Loops {
			found := false
			for _, li := range loops {
				if fmt.Sprint(li.ordinal) == id {
					li.spec = ls
					found = true
				}
			}
			if !found {
				vc.unsupp("%s: contract names loop %q but the function has %d loops", FuncName(fn), id, len(loops))
			}
		}
	}
	return f
}

// ---------------------------------------------------------------- names

// resolveAt finds the SSA value of source variable name at a program point.
func (f *frame) resolveAt(name string, b *ssa.BasicBlock, idx int, st State) (TV, bool) {
	if tv, ok := f.resolveLocal(name, b, idx, st); ok {
		return tv, true
	}
	return f.resolveParam(name, st)
}

// resolveParam: the entry value of a parameter / captured variable.
func (f *frame) resolveParam(name string, st State) (TV, bool) {
	for _, p := range f.fn.Params {
		if p.Name() == name {
			return TV{T: f.val(p), Ty: goTy(p.Type())}, true
		}
	}
	for _, fv := range f.fn.FreeVars {
		if fv.Name() == name {
			// free variables are pointers to the captured variable
			if pt, ok := fv.Type().Underlying().(*types.Pointer); ok {
				return TV{T: f.vc.load(st, f.val(fv), pt.Elem()), Ty: goTy(pt.Elem())}, true
			}
			return TV{T: f.val(fv), Ty: goTy(fv.Type())}, true
		}
	}
	return TV{}, false
}

// resolveLocal: the current SSA value of a source variable at a program point
// (parameters are assignable in Go, so they are looked up here first).
func (f *frame) resolveLocal(name string, b *ssa.BasicBlock, idx int, st State) (TV, bool) {
	defs := f.names[name]
	// a variable that lives in a cell (address taken / captured): always read the cell, also where
	// the debug information of its initialisation names the stored value
	for i := range defs {
		d := &defs[i]
		if !d.isAddr || b == nil {
			continue
		}
		if _, ok := d.val.(*ssa.Alloc); !ok {
			continue
		}
		def := d.val.(*ssa.Alloc)
		if def.Block() == nil || !(def.Block() == b || def.Block().Dominates(b)) {
			continue
		}
		if _, known := f.vals[def]; !known {
			continue
		}
		v := f.val(def)
		pt := def.Type().Underlying().(*types.Pointer)
		if strings.HasPrefix(v.S, "@local:") {
			return TV{T: f.loadLocal(st, v, pt.Elem()), Ty: goTy(pt.Elem())}, true
		}
		return TV{T: f.vc.load(st, v, pt.Elem()), Ty: goTy(pt.Elem())}, true
	}
	var best *nameDef
	for i := range defs {
		d := &defs[i]
		if b == nil {
			continue
		}
		dom := d.block == b && d.idx < idx || d.block != b && d.block.Dominates(b)
		if !dom {
			continue
		}
		if _, ok := f.vals[d.val]; !ok {
			if _, isC := d.val.(*ssa.Const); !isC {
				if _, isG := d.val.(*ssa.Global); !isG {
					continue
				}
			}
		}
		if best == nil {
			best = d
			continue
		}
		// later one wins
		if d.block == best.block {
			if d.idx > best.idx {
				best = d
			}
		} else if best.block.Dominates(d.block) {
			best = d
		}
	}
	if best == nil {
		return TV{}, false
	}
	v := f.val(best.val)
	if best.isAddr {
		pt, ok := best.val.Type().Underlying().(*types.Pointer)
		if !ok {
			return TV{}, false
		}
		if strings.HasPrefix(v.S, "@local:") {
			return TV{T: f.loadLocal(st, v, pt.Elem()), Ty: goTy(pt.Elem())}, true
		}
		return TV{T: f.vc.load(st, v, pt.Elem()), Ty: goTy(pt.Elem())}, true
	}
	return TV{T: v, Ty: goTy(best.val.Type())}, true
}

func (f *frame) envAt(b *ssa.BasicBlock, idx int, st State) *Env {
	e := &Env{vc: f.vc, bound: map[string]TV{}, state: st, old: f.old, pkg: f.pkg()}
	e.lookup = func(name string) (TV, bool) { return f.resolveAt(name, b, idx, st) }
	// captured variables of a closure under contract are cells
	for _, fv := range f.fn.FreeVars {
		if pt, ok := fv.Type().Underlying().(*types.Pointer); ok {
			if c := f.val(fv); !strings.HasPrefix(c.S, "@local:") {
				if e.derefs == nil {
					e.derefs = map[string]derefBinding{}
				}
				e.derefs[fv.Name()] = derefBinding{cell: c, elem: pt.Elem()}
			}
		}
	}
	e.oldLookup = func(name string) (TV, bool) {
		// old(x): a parameter's entry value; other names are evaluated in the entry state
		if tv, ok := f.resolveParam(name, f.old); ok {
			return tv, true
		}
		return f.resolveAt(name, b, idx, f.old)
	}
	return e
}

func (f *frame) pkg() *types.Package {
	if f.fn.Pkg != nil {
		return f.fn.Pkg.Pkg
	}
	if f.fn.Object() != nil {
		return f.fn.Object().Pkg()
	}
	if f.fn.Parent() != nil && f.fn.Parent().Pkg != nil {
		return f.fn.Parent().Pkg.Pkg
	}
	return nil
}

// ---------------------------------------------------------------- values

func (f *frame) val(v ssa.Value) Term {
	if t, ok := f.vals[v]; ok {
		return t
	}
	vc := f.vc
	switch v := v.(type) {
	case *ssa.Const:
		return f.constTerm(v)
	case *ssa.Global:
		return vc.globalRef(v)
	case *ssa.Function:
		return vc.funcRef(v)
	case *ssa.Builtin:
		return TNull
	}
	vc.unsupp("%s: value %s (%T) used before definition", FuncName(f.fn), v.Name(), v)
	t := vc.freshConst("undef", vc.info(v.Type()).sort)
	f.vals[v] = t
	return t
}

func (f *frame) constTerm(c *ssa.Const) Term {
	vc := f.vc
	ti := vc.info(c.Type())
	if c.Value == nil {
		return vc.zero(c.Type())
	}
	switch ti.kind {
	case "bool":
		if constant.BoolVal(c.Value) {
			return TTrue
		}
		return TFalse
	case "int":
		bi, ok := new(big.Int).SetString(constant.ToInt(c.Value).ExactString(), 10)
		if !ok {
			vc.unsupp("non-integer constant %s", c)
			return vc.freshConst("c", ti.sort)
		}
		return vc.intLit(bi, ti.bits)
	case "str":
		return vc.strLitTerm(constant.StringVal(c.Value))
	}
	// floats and the like
	return vc.freshConst("const", ti.sort)
}

func (f *frame) setVal(v ssa.Value, t Term) {
	name := v.Name()
	f.vals[v] = f.vc.define(f.prefix+"_"+name, t)
	if f.vc.preExisting[t.S] {
		f.vc.preExisting[f.vals[v].S] = true
	}
}

func (f *frame) havocVal(v ssa.Value) Term {
	vc := f.vc
	t := vc.freshConst(f.prefix+"_"+v.Name(), vc.info(v.Type()).sort)
	f.vals[v] = t
	vc.assume(vc.typeInv(t, v.Type()))
	f.assumeAllocated(t, v.Type(), f.cur)
	return t
}

// assumeAllocated: a pointer-like value of unknown origin refers to an object
// allocated before now.
func (f *frame) assumeAllocated(t Term, ty types.Type, st State) {
	vc := f.vc
	ti := vc.info(ty)
	switch ti.kind {
	case "ref":
		vc.assume(App(SBool, "<", App(SInt, "root", t), st.get(vc, "$alloc")))
	case "slice":
		vc.assume(App(SBool, "<", App(SInt, "root", vc.sliceArr(t)), st.get(vc, "$alloc")))
	case "iface":
		vc.assume(App(SBool, "<", App(SInt, "root", App(SRef, "ival", t)), st.get(vc, "$alloc")))
	case "struct":
		for i := 0; i < ti.st.NumFields(); i++ {
			f.assumeAllocated(vc.structField(t, ty, i), ti.st.Field(i).Type(), st)
		}
	case "tuple":
		for i := 0; i < ti.tup.Len(); i++ {
			f.assumeAllocated(vc.tupleField(t, ti.tup, i), ti.tup.At(i).Type(), st)
		}
	}
}

// ---------------------------------------------------------------- obligations

func (f *frame) srcText(pos token.Pos, want string) string {
	if !pos.IsValid() {
		return "?"
	}
	return f.vc.prog.srcText(pos, want)
}

func (f *frame) oblige(kind, text string, props []string, pos token.Pos, cond Term) {
	vc := f.vc
	if vc.pass == 2 {
		vc.addObligation(kind, text, props, pos, f.reach, cond)
	}
	// afterwards the path continues only if the condition held
	if cond.S != "true" {
		f.reach = vc.define(f.prefix+"_r", And(f.reach, cond))
	}
}

func (f *frame) safetyOb(kind string, pos token.Pos, want string, cond Term) {
	if cond.S == "true" {
		return
	}
	if !f.safety {
		f.reach = f.vc.define(f.prefix+"_r", And(f.reach, cond))
		return
	}
	var props []string
	if f.vc.con != nil && len(f.vc.con.SafetyProps) > 0 {
		props = f.vc.con.SafetyProps
	}
	f.oblige(kind, f.srcText(pos, want), props, pos, cond)
}

// ---------------------------------------------------------------- walk

func (f *frame) edgeTerm(p *ssa.BasicBlock, s *ssa.BasicBlock, succIdx int) Term {
	r := f.reachOut[p]
	if r.S == "" {
		return TFalse
	}
	if len(p.Instrs) > 0 {
		if ifi, ok := p.Instrs[len(p.Instrs)-1].(*ssa.If); ok {
			c := f.val(ifi.Cond)
			if p.Succs[0] == p.Succs[1] {
				return r
			}
			if succIdx == 0 {
				return And(r, c)
			}
			return And(r, Not(c))
		}
	}
	return r
}

// edgesInto lists (pred, term) for all edges into b.
func (f *frame) edgesInto(b *ssa.BasicBlock) (preds []*ssa.BasicBlock, terms []Term, predIdx []int) {
	for pi, p := range b.Preds {
		for si, s := range p.Succs {
			if s == b {
				// a pred may appear twice in b.Preds if both successors are b; handle the k-th occurrence
				if countBefore(b.Preds, pi, p) != countSuccBefore(p.Succs, si, b) {
					continue
				}
				preds = append(preds, p)
				terms = append(terms, f.edgeTerm(p, b, si))
				predIdx = append(predIdx, pi)
			}
		}
	}
	return
}

func countBefore(ps []*ssa.BasicBlock, i int, p *ssa.BasicBlock) int {
	n := 0
	for k := 0; k < i; k++ {
		if ps[k] == p {
			n++
		}
	}
	return n
}
func countSuccBefore(ss []*ssa.BasicBlock, i int, s *ssa.BasicBlock) int {
	n := 0
	for k := 0; k < i; k++ {
		if ss[k] == s {
			n++
		}
	}
	return n
}

func (f *frame) walk(entryReach Term, entryState State) {
	vc := f.vc
	for _, b := range f.order {
		f.curBlock = b
		li := f.loops[b]
		if b == f.fn.Blocks[0] {
			f.reach = entryReach
			f.cur = entryState.clone()
			f.entryRegion = vc.regionStart
		} else {
			// the region (modular loop context) of a block is that of its immediate dominator
			if d := b.Idom(); d != nil {
				if r, ok := f.regionOut[d]; ok {
					vc.regionStart = r
				}
			}
			preds, terms, predIdx := f.edgesInto(b)
			var inTerms []Term
			var inPreds []*ssa.BasicBlock
			var inIdx []int
			for k, p := range preds {
				if li != nil && li.backPreds[p] {
					continue
				}
				if _, done := f.reachOut[p]; !done {
					continue // unreachable predecessor
				}
				t := vc.define(fmt.Sprintf("%s_e%d_%d", f.prefix, p.Index, b.Index), terms[k])
				inTerms = append(inTerms, t)
				inPreds = append(inPreds, p)
				inIdx = append(inIdx, predIdx[k])
			}
			f.reach = vc.define(fmt.Sprintf("%s_r%d", f.prefix, b.Index), Or(inTerms...))
			// merge states
			f.cur = f.mergeStates(inPreds, inTerms)
			// phis
			if li == nil {
				for _, ins := range b.Instrs {
					phi, ok := ins.(*ssa.Phi)
					if !ok {
						break
					}
					var t Term
					for k := len(inPreds) - 1; k >= 0; k-- {
						v := f.val(phi.Edges[inIdx[k]])
						if t.S == "" {
							t = v
						} else {
							t = Ite(inTerms[k], v, t)
						}
					}
					if t.S == "" {
						t = vc.zero(phi.Type())
					}
					f.setVal(phi, t)
				}
			} else {
				f.enterLoop(li, inPreds, inTerms, inIdx)
			}
		}
		for i, ins := range b.Instrs {
			f.curIdx = i
			if _, ok := ins.(*ssa.Phi); ok {
				continue
			}
			f.instr(ins)
		}
		f.reachOut[b] = f.reach
		f.stOut[b] = f.cur
		f.regionOut[b] = vc.regionStart
		// back edges leaving this block
		for si, s := range b.Succs {
			if l2 := f.loops[s]; l2 != nil && l2.backPreds[b] {
				if countSuccBefore(b.Succs, si, s) > 0 {
					continue
				}
				f.backEdge(l2, b, si)
			}
		}
	}
}

func (f *frame) mergeStates(preds []*ssa.BasicBlock, edges []Term) State {
	vc := f.vc
	if len(preds) == 0 {
		return State{}
	}
	if len(preds) == 1 {
		return f.stOut[preds[0]].clone()
	}
	out := State{}
	keys := map[string]bool{}
	for _, p := range preds {
		for k := range f.stOut[p] {
			keys[k] = true
		}
	}
	var ks []string
	for k := range keys {
		ks = append(ks, k)
	}
	sort.Strings(ks)
	for _, k := range ks {
		first := f.stOut[preds[0]].get(vc, k)
		same := true
		for _, p := range preds[1:] {
			if f.stOut[p].get(vc, k).S != first.S {
				same = false
				break
			}
		}
		if same {
			out[k] = first
			continue
		}
		var t Term
		for i := len(preds) - 1; i >= 0; i-- {
			v := f.stOut[preds[i]].get(vc, k)
			if t.S == "" {
				t = v
			} else {
				t = Ite(edges[i], v, t)
			}
		}
		out[k] = vc.define(stateSym(k), t)
	}
	return out
}

// modsOf: state variables possibly modified inside the loop (from pass 1).
func (f *frame) loopMods(li *loopInfo) []string {
	vc := f.vc
	set := map[string]bool{}
	var addFn func(fn *ssa.Function, blocks map[*ssa.BasicBlock]bool, seen map[*ssa.Function]bool)
	addFn = func(fn *ssa.Function, blocks map[*ssa.BasicBlock]bool, seen map[*ssa.Function]bool) {
		for _, b := range fn.Blocks {
			if blocks != nil && !blocks[b] {
				continue
			}
			for _, ins := range b.Instrs {
				for k := range vc.instrMods[ins] {
					set[k] = true
				}
			}
		}
	}
	addFn(f.fn, li.body, map[*ssa.Function]bool{})
	var out []string
	for k := range set {
		out = append(out, k)
	}
	sort.Strings(out)
	return out
}

func (f *frame) recordMod(names ...string) {
	ins := f.curInstr()
	if ins == nil {
		return
	}
	m := f.vc.instrMods[ins]
	if m == nil {
		m = map[string]bool{}
		f.vc.instrMods[ins] = m
	}
	for _, n := range names {
		m[n] = true
	}
	// propagate to the call sites of enclosing (inlined) frames
	for _, ci := range f.vc.inlineStack {
		m2 := f.vc.instrMods[ci]
		if m2 == nil {
			m2 = map[string]bool{}
			f.vc.instrMods[ci] = m2
		}
		for _, n := range names {
			m2[n] = true
		}
	}
}

func (f *frame) curInstr() ssa.Instruction {
	if f.curBlock == nil || f.curIdx >= len(f.curBlock.Instrs) {
		return nil
	}
	return f.curBlock.Instrs[f.curIdx]
}

func (f *frame) enterLoop(li *loopInfo, inPreds []*ssa.BasicBlock, inTerms []Term, inIdx []int) {
	vc := f.vc
	b := li.header
	if li.spec == nil {
		vc.unsupp("%s: loop %d has no invariant", FuncName(f.fn), li.ordinal)
		li.spec = &LoopSpec{}
	}
	// 1. invariant on entry: evaluate with phis bound to their entry values
	var phis []*ssa.Phi
	for _, ins := range b.Instrs {
		if phi, ok := ins.(*ssa.Phi); ok {
			phis = append(phis, phi)
		} else {
			break
		}
	}
	entryVals := map[*ssa.Phi]Term{}
	for _, phi := range phis {
		var t Term
		for k := len(inPreds) - 1; k >= 0; k-- {
			v := f.val(phi.Edges[inIdx[k]])
			if t.S == "" {
				t = v
			} else {
				t = Ite(inTerms[k], v, t)
			}
		}
		if t.S == "" {
			t = vc.zero(phi.Type())
		}
		entryVals[phi] = t
	}
	for _, phi := range phis {
		f.vals[phi] = entryVals[phi]
	}
	envIn := f.envAt(b, len(phis), f.cur)
	for k, inv := range li.spec.Invariants {
		if !f.modeOK(inv.Mode) {
			continue
		}
		cond := f.evalClause(inv, envIn)
		vc.curGroup = inv.Group
		f.obligeNoAssume("inv-entry", fmt.Sprintf("loop %d [%d] %s", li.ordinal, k, inv.Text), inv.Props, b.Instrs[0].Pos(), cond)
	}
	// 2. havoc phis and modified state; the path that led here is forgotten too (the header's
	// reachability becomes an unconstrained boolean), so everything needed later must be in the invariant
	entryReachTerm := f.reach
	hdrStart := len(vc.lines)
	// loops that change no state variable (only their own counters) stay transparent: facts about
	// everything else flow through them; the others are verified modularly
	if os.Getenv("GOCV_NOFORGET") == "" && (vc.pass == 1 || len(f.loopMods(li)) > 0) {
		vc.regionStart = len(vc.lines)
		f.reach = vc.freshConst(fmt.Sprintf("%s_rh%d", f.prefix, b.Index), SBool)
	}
	f.headerReach[li] = f.reach
	// being at the header implies that the loop was entered: the conditions on the entry path (over
	// values defined before the loop, which the loop cannot change) hold in every iteration. For a
	// nested loop this also links it to the enclosing header, whose invariant therefore stays usable.
	if f.reach.S != entryReachTerm.S {
		vc.emit("(assert (=> " + f.reach.S + " " + entryReachTerm.S + ")) ;hdr")
	}
	for _, phi := range phis {
		delete(f.vals, phi)
		f.havocVal(phi)
	}
	if vc.pass == 2 {
		for _, k := range f.loopMods(li) {
			if k == "$alloc" {
				old := f.cur.get(vc, k)
				n := vc.freshState(k)
				vc.assume(App(SBool, ">=", n, old))
				f.cur[k] = n
				continue
			}
			f.cur[k] = vc.freshState(k)
		}
	}
	// 3. assume invariants
	envH := f.envAt(b, len(phis), f.cur)
	for _, inv := range li.spec.Invariants {
		if !f.modeOK(inv.Mode) {
			continue
		}
		vc.assumeHdr(Implies(f.reach, f.evalClause(inv, envH)), inv.Group)
	}
	f.headerState[li] = f.cur.clone()
	// remember where this header's assumptions live and which enclosing headers it depends on
	if vc.regionStart == hdrStart {
		var anc [][2]int
		var parent *loopInfo
		for _, lo := range f.loops {
			if lo != li && lo.body[b] && (parent == nil || len(lo.body) < len(parent.body)) {
				parent = lo
			}
		}
		if parent != nil {
			if pr, ok := f.hdrRange[parent]; ok {
				anc = append(anc, vc.regionAncestors[pr[0]]...)
				anc = append(anc, pr)
			}
		}
		f.hdrRange[li] = [2]int{hdrStart, len(vc.lines)}
		vc.regionAncestors[hdrStart] = anc
	}
	if li.spec.Decreases != nil && f.modeOK(li.spec.Decreases.Mode) {
		m := f.evalClauseTV(*li.spec.Decreases, envH)
		m = vc.materialize(m, goTy(types.Typ[types.Int]))
		f.loopMeasure[li] = vc.define(f.prefix+"_measure", m.T)
	}
}

func (f *frame) modeOK(m string) bool {
	return m == "" || m == f.vc.mode.String()
}

func (f *frame) obligeNoAssume(kind, text string, props []string, pos token.Pos, cond Term) {
	if f.vc.pass == 2 {
		ob := f.vc.addObligation(kind, text, props, pos, f.reach, cond)
		ob.Group = f.vc.curGroup
	}
}

func (f *frame) backEdge(li *loopInfo, from *ssa.BasicBlock, succIdx int) {
	vc := f.vc
	edge := vc.define(fmt.Sprintf("%s_be%d_%d", f.prefix, from.Index, li.header.Index), f.edgeTerm(from, li.header, succIdx))
	// which pred index of header is `from`?
	pi := -1
	for k, p := range li.header.Preds {
		if p == from {
			pi = k
			break
		}
	}
	var phis []*ssa.Phi
	for _, ins := range li.header.Instrs {
		if phi, ok := ins.(*ssa.Phi); ok {
			phis = append(phis, phi)
		} else {
			break
		}
	}
	saved := map[*ssa.Phi]Term{}
	for _, phi := range phis {
		saved[phi] = f.vals[phi]
	}
	next := map[*ssa.Phi]Term{}
	for _, phi := range phis {
		next[phi] = f.val(phi.Edges[pi])
	}
	for _, phi := range phis {
		f.vals[phi] = next[phi]
	}
	st := f.stOut[from]
	env := f.envAt(li.header, len(phis), st)
	savedReach := f.reach
	f.reach = edge
	for k, inv := range li.spec.Invariants {
		if !f.modeOK(inv.Mode) {
			continue
		}
		cond := f.evalClause(inv, env)
		vc.curGroup = inv.Group
		f.obligeNoAssume("inv-step", fmt.Sprintf("loop %d [%d] %s", li.ordinal, k, inv.Text), inv.Props, from.Instrs[len(from.Instrs)-1].Pos(), cond)
	}
	if m0, ok := f.loopMeasure[li]; ok {
		m := vc.materialize(f.evalClauseTV(*li.spec.Decreases, env), goTy(types.Typ[types.Int]))
		cond := And(vc.le(vc.idxLit(0), m0, true), vc.lt(m.T, m0, true))
		vc.curGroup = ""
		f.obligeNoAssume("decreases", fmt.Sprintf("loop %d %s", li.ordinal, li.spec.Decreases.Text), li.spec.Decreases.Props, token.NoPos, cond)
	}
	// cover: the back edge is reachable (a dead loop body would make every inv-step vacuous)
	if vc.pass == 2 && f.depth == 0 && len(li.spec.Invariants) > 0 && f.reachOut[from].S != "false" && f.reachOut[from].S != "" && !(vc.con != nil && vc.con.NoReturn) {
		ob := vc.addObligation("cover", fmt.Sprintf("backedge@block%d->%d", from.Index, li.header.Index), nil, from.Instrs[len(from.Instrs)-1].Pos(), edge, TTrue)
		ob.Cover = true
		ob.BackEdge = true
		ob.LoopHdr = li.header.Index
	}
	f.reach = savedReach
	for _, phi := range phis {
		f.vals[phi] = saved[phi]
	}
}

// evalClause evaluates a boolean clause, turning spec errors into "unsupported".
func (f *frame) evalClause(cl Clause, env *Env) Term {
	tv := f.evalClauseTV(cl, env)
	if tv.T.Sort != SBool {
		f.vc.unsupp("%s: clause is not boolean: %s", cl.Src, cl.Text)
		return TTrue
	}
	return tv.T
}

func (f *frame) evalClauseTV(cl Clause, env *Env) (tv TV) {
	defer func() {
		if r := recover(); r != nil {
			if se, ok := r.(specError); ok {
				f.vc.unsupp("%s: cannot bind %q: %s", cl.Src, cl.Text, string(se))
				tv = TV{T: TTrue, Ty: goTy(types.Typ[types.Bool])}
				return
			}
			panic(r)
		}
	}()
	return f.vc.evalSpec(cl.Expr, env)
}

// tryEvalClause evaluates a boolean clause; ok is false (and nothing is reported) when a name in it is
// not in scope at this program point.
func (f *frame) tryEvalClause(cl Clause, env *Env) (t Term, ok bool) {
	defer func() {
		if r := recover(); r != nil {
			if se, isSE := r.(specError); isSE && strings.Contains(string(se), "unknown name") {
				t, ok = TTrue, false
				return
			}
			panic(r)
		}
	}()
	tv := f.vc.evalSpec(cl.Expr, env)
	if tv.T.Sort != SBool {
		return TTrue, false
	}
	return tv.T, true
}

// ---------------------------------------------------------------- source text

func (p *Program) srcText(pos token.Pos, want string) string {
	position := p.SSA.Fset.Position(pos)
	for _, pkg := range p.Pkgs {
		for i, file := range pkg.Syntax {
			_ = i
			if file.Pos() <= pos && pos <= file.End() {
				var best ast.Node
				ast.Inspect(file, func(n ast.Node) bool {
					if n == nil {
						return false
					}
					if n.Pos() <= pos && pos <= n.End() {
						ok := false
						switch n.(type) {
						case *ast.IndexExpr:
							ok = want == "index" || want == ""
						case *ast.SliceExpr:
							ok = want == "slice" || want == ""
						case *ast.StarExpr, *ast.UnaryExpr:
							ok = want == "nil" || want == ""
						case *ast.SelectorExpr:
							ok = want == "nil" || want == ""
						case *ast.CallExpr:
							ok = want == "call" || want == "" || want == "nil"
						case *ast.BinaryExpr:
							ok = want == "arith" || want == ""
						case *ast.TypeAssertExpr:
							ok = want == "typeassert" || want == ""
						case *ast.AssignStmt, *ast.IncDecStmt:
							ok = want == "arith" || want == "assign"
						}
						if ok {
							best = n
						}
						return true
					}
					return false
				})
				if best != nil {
					data := p.fileData(position.Filename)
					s, e := p.SSA.Fset.Position(best.Pos()).Offset, p.SSA.Fset.Position(best.End()).Offset
					if data != nil && s >= 0 && e <= len(data) && s < e {
						txt := strings.Join(strings.Fields(string(data[s:e])), " ")
						if len(txt) > 70 {
							txt = txt[:70] + "…"
						}
						return txt
					}
				}
				return fmt.Sprintf("@%s", want)
			}
		}
	}
	return "?"
}

// frameAxiom: the function under contract has an assigns clause, and every store is checked
// against it (obligation kind "frame"); hence at any point a cell that existed at entry and is
// not listed still holds its entry value. Stated for a memory array just havocked at a loop header.
func (f *frame) frameAxiom(name string) {
	vc := f.vc
	if vc.con == nil || !vc.con.HasAssigns || vc.topFrame == nil || !strings.HasPrefix(name, "Mem_") || f.depth > 0 {
		return
	}
	sort := vc.stateSort[name]
	elem := Sort(strings.TrimSuffix(strings.TrimPrefix(string(sort), "(Array Ref "), ")"))
	r := Term{"qfr", SRef}
	listed := vc.inLocs(r, name, vc.topLocs)
	cond := And(App(SBool, "<", App(SInt, "root", r), vc.topFrame.entryAlloc), Not(listed))
	vc.emit("(assert " + Forall([]Term{r}, Implies(cond, Eq(Select(f.cur[name], r, elem), Select(vc.entryTerm(name), r, elem)))).S + ") ;hdr")
}

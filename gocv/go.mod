module gocv

go 1.26

require golang.org/x/tools v0.50.0

package main

import (
	"fmt"
	"go/token"
	"go/types"
	"sort"
	"strings"
	"sync"

	"golang.org/x/tools/go/ssa"
)

// FuncResult is the outcome of verifying one function in one arithmetic mode.
type FuncResult struct {
	Func        string
	Mode        string
	Kind        string
	Obligations []*Obligation
	Covers      []*Obligation
	Unsupported []string
	Assumptions []string
	Callees     map[string]string
	Warnings    []string
	GenSeconds  float64
}

func (vc *VC) atReturnTop(f *frame, vals []Term) {
	con := vc.con
	if con == nil {
		return
	}
	if f.reach.S == "false" {
		// the recover block (entered only by a panic, whose absence is proved by the safety obligations)
		// or code after a noreturn call: nothing to establish, and source names are not in scope there
		return
	}
	sig := f.fn.Signature
	var res []TV
	for i, v := range vals {
		res = append(res, TV{T: v, Ty: goTy(sig.Results().At(i).Type())})
	}
	if res == nil {
		res = []TV{}
	}
	env := f.envAt(f.curBlock, f.curIdx, f.cur)
	env.result = res
	inner := env.lookup
	env.lookup = func(name string) (TV, bool) {
		for i := 0; i < sig.Results().Len(); i++ {
			if sig.Results().At(i).Name() == name && name != "_" && name != "" {
				return res[i], true
			}
		}
		// only parameters / free variables are visible in postconditions
		for _, p := range f.fn.Params {
			if p.Name() == name {
				return inner(name)
			}
		}
		for _, p := range f.fn.FreeVars {
			if p.Name() == name {
				return inner(name)
			}
		}
		return TV{}, false
	}
	// `callsite return: assert e`: an assertion at every return in which the function's own variables
	// (not only parameters and results) are visible; it is not part of the contract callers see
	if f.depth == 0 {
		for _, cs := range con.Callsites {
			if cs.Callee != "return" || !f.modeOK(cs.Assert.Mode) {
				continue
			}
			env2 := *env
			env2.lookup = func(name string) (TV, bool) {
				if tv, ok := env.lookup(name); ok {
					return tv, true
				}
				return inner(name)
			}
			// checked at every return where the variables it names are in scope (an early return that
			// precedes their declaration is skipped; a clause in scope nowhere is reported as unbound)
			cond, ok := f.tryEvalClause(cs.Assert, &env2)
			if !ok {
				continue
			}
			vc.curGroup = cs.Assert.Group
			f.obligeNoAssume("exit", fmt.Sprintf("at return: %s", cs.Assert.Text), cs.Assert.Props, f.curInstr().Pos(), cond)
			vc.callsiteHits[cs.Assert.Src]++
		}
	}
	for k, e := range con.Ensures {
		if !f.modeOK(e.Mode) {
			continue
		}
		if e.Abstract {
			vc.assumptions["abstraction: "+FuncName(f.fn)+" is a deterministic function of its arguments ("+e.Text+")"] = true
			continue
		}
		cond := f.evalClause(e, env)
		vc.curGroup = e.Group
		f.obligeNoAssume("post", fmt.Sprintf("[%d] %s", k, e.Text), e.Props, f.curInstr().Pos(), cond)
	}
	for _, c := range con.Cases {
		var g Term = TTrue
		if c.Guard != nil {
			g = f.evalClause(Clause{Expr: c.Guard, Text: c.GuardText, Src: con.Src}, env)
		}
		for k, e := range c.Ensures {
			cond := f.evalClause(e, env)
			f.obligeNoAssume("post", fmt.Sprintf("case %s [%d] %s", c.GuardText, k, e.Text), e.Props, f.curInstr().Pos(), Implies(g, cond))
		}
	}
	// cover: this return is reachable (vacuity guard)
	if vc.pass == 2 {
		ob := vc.addObligation("cover", fmt.Sprintf("return@block%d", f.curBlock.Index), nil, f.curInstr().Pos(), f.reach, TTrue)
		ob.Cover = true
	}
}

func (f *frame) atReturn(ins *ssa.Return, vals []Term) {
	f.vc.atReturnTop(f, vals)
}

// Run generates the verification conditions (two passes: the first discovers
// the state variables each instruction may modify, the second generates).
func (vc *VC) Run() {
	for pass := 1; pass <= 2; pass++ {
		vc.pass = pass
		vc.reset()
		vc.generate()
	}
}

func (vc *VC) generate() {
	fn, con := vc.fn, vc.con
	if fn == nil {
		// a lemma: one closed formula, no code
		env := &Env{vc: vc, bound: map[string]TV{}, state: State{}, old: State{}}
		for _, e := range con.Ensures {
			func() {
				defer func() {
					if r := recover(); r != nil {
						if se, ok := r.(specError); ok {
							vc.unsupp("%s: %s", e.Src, string(se))
							return
						}
						panic(r)
					}
				}()
				t := vc.evalBool(e.Expr, env)
				if vc.pass == 2 {
					vc.addObligation("lemma", e.Text, e.Props, 0, TTrue, t)
				}
			}()
		}
		return
	}
	f := vc.newFrame(fn, con, 0)
	f.top = true
	f.safety = con == nil || !con.NoSafety
	if con != nil && len(con.Arith) > 1 && vc.mode.String() != con.Arith[0] {
		// a function verified in two arithmetic modes proves its safety obligations in the first
		f.safety = false
	}
	vc.topFrame = f
	for _, p := range fn.Params {
		t := Term{"p_" + sanitize(p.Name()), vc.info(p.Type()).sort}
		vc.emit(fmt.Sprintf("(declare-const %s %s)", t.S, t.Sort))
		f.vals[p] = t
		vc.assume(vc.typeInv(t, p.Type()))
	}
	for _, p := range fn.FreeVars {
		t := Term{"fv_" + sanitize(p.Name()), vc.info(p.Type()).sort}
		vc.emit(fmt.Sprintf("(declare-const %s %s)", t.S, t.Sort))
		f.vals[p] = t
		vc.assume(vc.typeInv(t, p.Type()))
		if _, ok := p.Type().Underlying().(*types.Pointer); ok {
			vc.assume(Not(Eq(t, TNull))) // a captured variable's cell exists
		}
	}
	entry := State{}
	f.old = State{}
	f.cur = entry
	f.entryAlloc = entry.get(vc, "$alloc")
	vc.assume(App(SBool, ">=", f.entryAlloc, IntLit(0)))
	for _, p := range fn.Params {
		f.assumeAllocated(f.vals[p], p.Type(), entry)
	}
	for _, p := range fn.FreeVars {
		f.assumeAllocated(f.vals[p], p.Type(), entry)
	}
	// implicit: pointer receivers are non-nil (callers prove it)
	if recv := fn.Signature.Recv(); recv != nil && len(fn.Params) > 0 {
		if _, ok := recv.Type().Underlying().(*types.Pointer); ok {
			vc.assume(Not(Eq(f.vals[fn.Params[0]], TNull)))
		}
	}
	if len(fn.Blocks) == 0 {
		vc.unsupp("%s has no body", FuncName(fn))
		return
	}
	env := f.envAt(fn.Blocks[0], 0, entry)
	if con != nil {
		for _, r := range con.Requires {
			if !f.modeOK(r.Mode) {
				continue
			}
			if r.Group != "" {
				vc.emit("(assert " + f.evalClause(r, env).S + ") ;g=" + r.Group)
				continue
			}
			vc.assume(f.evalClause(r, env))
		}
		for _, r := range con.Assumes {
			if !f.modeOK(r.Mode) {
				continue
			}
			vc.assume(f.evalClause(r, env))
			vc.assumptions["assumed at entry of "+FuncName(fn)+": "+r.Text] = true
		}
		if con.HasAssigns {
			vc.topLocs = vc.evalLocs(con.Assigns, env)
		}
		for _, c := range con.Cases {
			if !c.HasAssigns {
				continue
			}
			var g Term = TTrue
			if c.Guard != nil {
				g = f.evalClause(Clause{Expr: c.Guard, Text: c.GuardText, Src: con.Src}, env)
			}
			for _, l := range vc.evalLocs(c.Assigns, env) {
				l.guard = g
				vc.topLocs = append(vc.topLocs, l)
			}
		}
	}
	vc.assumeGlobalInvs(f, env)
	vc.assumeExportedLemmas()
	if fn.Synthetic == "package initializer" {
		// the initialiser runs once: its guard is still false
		if g, ok := fn.Pkg.Members["init$guard"].(*ssa.Global); ok {
			vc.assume(Not(vc.load(entry, vc.globalRef(g), types.Typ[types.Bool])))
		}
	}
	vc.entryLines = len(vc.lines)
	f.walk(TTrue, entry)
	vc.addNamedAxioms()
	if vc.pass == 2 {
		// vacuity: a function whose every path ends in a noreturn call has no return cover;
		// cover its entry instead
		if len(f.rets) == 0 {
			ob := vc.addObligation("cover", "entry", nil, fn.Pos(), TTrue, TTrue)
			ob.Cover = true
			ob.nLines = vc.entryLines
		}
		if con != nil {
			for _, cs := range con.Callsites {
				if vc.callsiteHits[cs.Assert.Src] == 0 && f.modeOK(cs.Assert.Mode) {
					vc.unsupp("%s: callsite clause for %q matched no call", cs.Assert.Src, cs.Callee)
				}
			}
		}
	}
}

// ---------------------------------------------------------------- discharge

type Discharger struct {
	Timeout int
	Workers int
	Solvers []int
}

func (d *Discharger) Discharge(vc *VC, obs []*Obligation) {
	var wg sync.WaitGroup
	sem := make(chan struct{}, d.Workers)
	for _, ob := range obs {
		wg.Add(1)
		sem <- struct{}{}
		go func(ob *Obligation) {
			defer wg.Done()
			defer func() { <-sem }()
			if !ob.Cover && ob.Cond.S == "true" {
				ob.Res = SolverResult{Status: "unsat", Solver: "trivial"}
				return
			}
			script := vc.obligationScript(ob, false)
			if ob.Cover {
				ob.Res = Solve(script, 3, []int{0})
				return
			}
			ob.Res = Solve(script, d.Timeout, d.Solvers)
		}(ob)
	}
	wg.Wait()
}

func summarize(obs []*Obligation) (total, discharged int, failed []*Obligation) {
	for _, ob := range obs {
		if ob.Cover {
			continue
		}
		total++
		if ob.Res.Status == "unsat" {
			discharged++
		} else {
			failed = append(failed, ob)
		}
	}
	return
}

func sortedKeys(m map[string]bool) []string {
	var out []string
	for k := range m {
		out = append(out, k)
	}
	sort.Strings(out)
	return out
}

func shortStatus(ob *Obligation) string {
	return fmt.Sprintf("%-8s %-9s %6.2fs %s", ob.Res.Status, ob.Res.Solver, ob.Res.Seconds, ob.Name)
}

func indent(s string, n int) string {
	pad := strings.Repeat(" ", n)
	return pad + strings.ReplaceAll(s, "\n", "\n"+pad)
}

// assumeGlobalInvs: invariants of frozen globals of the function's package and
// of the packages it imports hold in every state (they are proved on the
// package initialisers).
func (vc *VC) assumeGlobalInvs(f *frame, env *Env) {
	if isInitFunc(vc.fn) {
		return
	}
	pkg := f.pkg()
	if pkg == nil {
		return
	}
	rel := map[string]*types.Package{shortPkg(pkg.Path()): pkg}
	for _, imp := range pkg.Imports() {
		rel[shortPkg(imp.Path())] = imp
	}
	for _, gi := range vc.specs.GlobalInvs {
		p := rel[gi.Pkg]
		if p == nil {
			continue
		}
		sp := vc.prog.SSA.Package(p)
		if sp == nil {
			continue
		}
		g := sp.Var(gi.Name)
		if g == nil {
			vc.unsupp("%s: no package-level variable %s.%s", gi.Clause.Src, gi.Pkg, gi.Name)
			continue
		}
		if !vc.prog.Frozen[g] {
			vc.unsupp("%s: %s.%s is written outside its package initialiser (or its address escapes); its invariant cannot be assumed", gi.Clause.Src, gi.Pkg, gi.Name)
			continue
		}
		e := &Env{vc: vc, bound: map[string]TV{}, state: State{}, old: State{}, pkg: p}
		vc.assume(f.evalClause(gi.Clause, e))
		vc.assumptionsNote("global invariant " + gi.Pkg + "." + gi.Name + ": " + gi.Clause.Text + " (proved on the package initialiser)")
	}
}

func (vc *VC) assumptionsNote(s string) { vc.notes[s] = true }

// assumeExportedLemmas: bit-level facts proved as bv lemmas hold for the uninterpreted bit
// functions of int mode (the same expression, evaluated in int mode, speaks about them).
func (vc *VC) assumeExportedLemmas() {
	if vc.mode != ModeInt || !vc.usesBitOps() {
		return
	}
	var names []string
	for n, c := range vc.specs.Contracts {
		if c.Kind == "lemma" && c.Export {
			names = append(names, n)
		}
	}
	sort.Strings(names)
	for _, n := range names {
		c := vc.specs.Contracts[n]
		env := &Env{vc: vc, bound: map[string]TV{}, state: State{}, old: State{}}
		for _, e := range c.Ensures {
			func() {
				defer func() {
					if r := recover(); r != nil {
						if _, ok := r.(specError); ok {
							return
						}
						panic(r)
					}
				}()
				if c.Group != "" {
					vc.emit("(assert " + vc.evalBool(e.Expr, env).S + ") ;g=" + c.Group)
				} else {
					vc.assume(vc.evalBool(e.Expr, env))
				}
				vc.notes["bit-level lemma "+n+" (proved in bv mode) assumed for the uninterpreted bit functions"] = true
			}()
		}
	}
}

// usesBitOps: does the function under contract (or a callee inlined into it) contain bit operations?
func (vc *VC) usesBitOps() bool {
	if vc.fn == nil {
		return false
	}
	for _, b := range vc.fn.Blocks {
		for _, ins := range b.Instrs {
			if bo, ok := ins.(*ssa.BinOp); ok {
				switch bo.Op {
				case token.AND, token.OR, token.XOR, token.AND_NOT, token.SHL, token.SHR:
					return true
				}
			}
		}
	}
	return false
}

// addNamedAxioms: induction-backed facts about the recursive spec functions this VC uses.
func (vc *VC) addNamedAxioms() {
	for _, ax := range vc.specs.NamedAxioms {
		if ax.Uses != "" && !vc.usedFns[ax.Uses] {
			continue
		}
		key := "axiom:" + ax.Name
		if vc.usedFns[key] {
			continue
		}
		vc.usedFns[key] = true
		env := &Env{vc: vc, bound: map[string]TV{}, state: State{}, old: State{}, pkg: vc.fnPkg()}
		func() {
			defer func() {
				if r := recover(); r != nil {
					if se, ok := r.(specError); ok {
						vc.unsupp("%s: axiom %s: %s", ax.Clause.Src, ax.Name, string(se))
						return
					}
					panic(r)
				}
			}()
			t := vc.evalBool(ax.Clause.Expr, env)
			vc.fnDefs = append(vc.fnDefs, "(assert "+t.S+")")
			vc.assumptions["induction: "+ax.Name+" follows from lemma "+ax.By+" (base and step discharged by the solver; the induction principle is applied outside it)"] = true
		}()
	}
}

package main

import (
	"sync/atomic"
	"bufio"
	"encoding/json"
	"flag"
	"fmt"
	"os"
	"path/filepath"
	"sort"
	"strconv"
	"strings"
	"sync"
	"time"
)

func verifDir() string {
	if d := os.Getenv("GOCV_VERIF"); d != "" {
		return d
	}
	return "/verif"
}

type knownFinding struct {
	Kind     string // finding | fixed
	Property string
	Key      string // obligation name (finding) or commit (fixed)
	Text     string
}

func loadKnownFindings() []knownFinding {
	var out []knownFinding
	fh, err := os.Open(filepath.Join(verifDir(), "known_findings.txt"))
	if err != nil {
		return nil
	}
	defer fh.Close()
	sc := bufio.NewScanner(fh)
	for sc.Scan() {
		line := strings.TrimSpace(sc.Text())
		if line == "" || strings.HasPrefix(line, "#") {
			continue
		}
		var kf knownFinding
		switch {
		case strings.HasPrefix(line, "finding:"):
			kf.Kind = "finding"
			line = strings.TrimSpace(line[len("finding:"):])
		case strings.HasPrefix(line, "fixed:"):
			kf.Kind = "fixed"
			line = strings.TrimSpace(line[len("fixed:"):])
		default:
			continue
		}
		// property=<id> key=<...> | text
		parts := strings.SplitN(line, "|", 2)
		head := strings.TrimSpace(parts[0])
		if len(parts) > 1 {
			kf.Text = strings.TrimSpace(parts[1])
		}
		for _, f := range strings.SplitN(head, " ", 2) {
			f = strings.TrimSpace(f)
			switch {
			case strings.HasPrefix(f, "property="):
				kf.Property = f[len("property="):]
			case strings.HasPrefix(f, "key="):
				kf.Key = f[len("key="):]
			default:
				if kf.Key == "" {
					kf.Key = f
				}
			}
		}
		out = append(out, kf)
	}
	return out
}

type propOutcome struct {
	ID          string
	Tier        string
	Seed        int64
	Funcs       []*funcRun
	Bounded     []*BoundedResult
	Violations  []violation
	Known       []string
	Undecided   []string
	Start       time.Time
}

type funcRun struct {
	name string
	mode string
	kind string
	vc   *VC
	obs  []*Obligation // attributed to the property (covers included)
	gen  float64
}

type violation struct {
	Obligation string
	Replay     string
	NoInput    bool
	Detail     string
}

func hasProp(list []string, id string) bool {
	for _, p := range list {
		if p == id {
			return true
		}
	}
	return false
}

func cmdCheck(args []string) int {
	fs := flag.NewFlagSet("check", flag.ExitOnError)
	tier := fs.String("tier", os.Getenv("VERIF_TIER"), "quick | thorough")
	only := fs.String("only", "", "restrict to functions whose name contains this (developer)")
	verbose := fs.Bool("v", false, "verbose")
	noBounded := fs.Bool("no-bounded", false, "skip bounded stand-ins (developer)")
	fs.Parse(args)
	if fs.NArg() != 1 {
		fmt.Fprintln(os.Stderr, "usage: gocv check [--tier quick|thorough] <property id>")
		return 2
	}
	if *tier == "" {
		*tier = "quick"
	}
	id := fs.Arg(0)
	seed := int64(1)
	if s := os.Getenv("VERIF_SEED"); s != "" {
		if n, err := strconv.ParseInt(s, 10, 64); err == nil {
			seed = n
		}
	}
	defer cleanupScratch()
	out := &propOutcome{ID: id, Tier: *tier, Seed: seed, Start: time.Now()}
	p, err := LoadProgram(repoDir())
	if err != nil {
		// the tree does not even type-check: nothing decided
		fmt.Printf("UNDECIDED property=%s reason=repository does not load: %v\n", id, firstLines(err.Error(), 3))
		return 2
	}
	specs, err := LoadSpecs(repoDir(), filepath.Join(verifDir(), "spec"))
	if err != nil {
		fmt.Printf("UNDECIDED property=%s reason=contracts do not parse: %v\n", id, err)
		return 2
	}
	// functions under contract for this property
	var names []string
	for n, c := range specs.Contracts {
		if c.Kind == "assumed" || c.Kind == "trusted" || c.Kind == "model" {
			continue
		}
		if hasProp(c.Props, id) && (*only == "" || strings.Contains(n, *only)) {
			names = append(names, n)
		}
	}
	sort.Strings(names)
	timeout := 20
	if *tier == "thorough" {
		timeout = 60
	}
	var genWG sync.WaitGroup
	var mu sync.Mutex
	sem := make(chan struct{}, 8)
	for _, n := range names {
		con := specs.Contracts[n]
		fn := p.Funcs[n]
		if con.Kind == "lemma" {
			fn = nil
		} else if fn == nil || len(fn.Blocks) == 0 {
			out.Undecided = append(out.Undecided, fmt.Sprintf("contract %s (%s) names no function with a body in the tree", n, con.Src))
			continue
		}
		modes := con.Arith
		if len(modes) == 0 {
			modes = []string{"bv"}
		}
		for _, m := range modes {
			genWG.Add(1)
			sem <- struct{}{}
			go func(n, m string) {
				defer genWG.Done()
				defer func() { <-sem }()
				mode := ModeBV
				if m == "int" {
					mode = ModeInt
				}
				t0 := time.Now()
				vc := NewVC(p, specs, fn, con, mode)
				func() {
					defer func() {
						if r := recover(); r != nil {
							vc.unsupp("internal error while generating VCs for %s: %v", n, r)
						}
					}()
					vc.Run()
				}()
				fr := &funcRun{name: n, mode: m, kind: con.Kind, vc: vc, gen: time.Since(t0).Seconds()}
				for _, ob := range vc.obligations {
					if hasProp(ob.Props, id) {
						fr.obs = append(fr.obs, ob)
					}
				}
				mu.Lock()
				out.Funcs = append(out.Funcs, fr)
				for _, u := range vc.unsupported {
					out.Undecided = append(out.Undecided, fmt.Sprintf("%s [%s]: %s", n, m, u))
				}
				mu.Unlock()
			}(n, m)
		}
	}
	genWG.Wait()
	sort.Slice(out.Funcs, func(i, j int) bool {
		if out.Funcs[i].name != out.Funcs[j].name {
			return out.Funcs[i].name < out.Funcs[j].name
		}
		return out.Funcs[i].mode < out.Funcs[j].mode
	})
	// discharge everything in one pool
	type job struct {
		fr *funcRun
		ob *Obligation
	}
	var jobs []job
	for _, fr := range out.Funcs {
		for _, ob := range fr.obs {
			jobs = append(jobs, job{fr, ob})
		}
	}
	var wg sync.WaitGroup
	var nFailed int32
	pool := make(chan struct{}, 6)
	for _, j := range jobs {
		wg.Add(1)
		pool <- struct{}{}
		go func(j job) {
			defer wg.Done()
			defer func() { <-pool }()
			ob := j.ob
			if !ob.Cover && ob.Cond.S == "true" {
				ob.Res = SolverResult{Status: "unsat", Solver: "trivial"}
				return
			}
			script := j.fr.vc.obligationScript(ob, false)
			if ob.Cover {
				// vacuity guard: only an "unsat" answer matters; do not wait for a model
				ob.Res = Solve(script, 3, []int{0})
				return
			}
			ob.Res = Solve(script, timeout, nil)
			if !ob.Cover && (ob.Res.Status == "timeout" || ob.Res.Status == "unknown") && atomic.LoadInt32(&nFailed) <= 3 {
				// one retry with a longer budget before calling it a failure
				ob.Res = Solve(script, timeout*3, nil)
			}
			if ob.Res.Status != "unsat" {
				atomic.AddInt32(&nFailed, 1)
			} else if out.Tier == "thorough" && ob.Res.Solver != "trivial" {
				// cross-check: every other solver family decides the same script on its own; a "sat" from any
				// of them is a disagreement and the obligation no longer counts as discharged
				var others []int
				for _, si := range []int{0, 1, 2} {
					if !strings.HasPrefix(ob.Res.Solver, solvers[si].name) {
						others = append(others, si)
					}
				}
				cross := make([]SolverResult, len(others))
				var cw sync.WaitGroup
				for k, si := range others {
					cw.Add(1)
					go func(k, si int) {
						defer cw.Done()
						cross[k] = solveWith(script, 10, []int{si})
					}(k, si)
				}
				cw.Wait()
				ob.Cross = cross
				for _, r := range cross {
					if r.Status == "sat" {
						ob.Res = SolverResult{Status: "disagreement", Solver: ob.Res.Solver + " vs " + r.Solver, Seconds: ob.Res.Seconds + r.Seconds,
							Output: "solver disagreement: " + ob.Res.Solver + " answered unsat, " + r.Solver + " answered sat\n" + r.Output}
						atomic.AddInt32(&nFailed, 1)
						break
					}
				}
			}
		}(j)
	}
	wg.Wait()

	// bounded stand-ins
	if !*noBounded {
		for _, b := range boundedChecks[id] {
			r := b.Run(out)
			out.Bounded = append(out.Bounded, r)
		}
	}
	return report(out, *verbose)
}

func report(out *propOutcome, verbose bool) int {
	id := out.ID
	known := loadKnownFindings()
	isKnown := func(name string) *knownFinding {
		for i := range known {
			k := &known[i]
			if k.Kind == "finding" && k.Property == id && k.Key == name {
				return k
			}
		}
		return nil
	}
	total, discharged := 0, 0
	perSolver := map[string]int{}
	solverSeconds := 0.0
	var samples []any
	var failedObs []*Obligation
	var failedVC = map[*Obligation]*VC{}
	covers, vacuous := 0, 0
	assumptions := map[string]bool{}
	var funcs []string
	arith := map[string]string{}
	for _, fr := range out.Funcs {
		funcs = append(funcs, fr.name+" ["+fr.mode+"]")
		arith[fr.name+" ["+fr.mode+"]"] = fr.mode
		for a := range fr.vc.assumptions {
			assumptions[a] = true
		}
		if vacuousFunction(fr.obs) {
			out.Undecided = append(out.Undecided, "vacuous: no exit of "+fr.name+" ["+fr.mode+"] is reachable under its preconditions and invariants")
		}
		for _, ob := range fr.obs {
			solverSeconds += ob.Res.Seconds
			if ob.Cover {
				covers++
				if ob.Res.Status == "unsat" {
					vacuous++ // an unreachable return (dead code after a noreturn call) is fine; all of them is not
				}
				continue
			}
			total++
			if ob.Res.Status == "unsat" {
				discharged++
				perSolver[ob.Res.Solver]++
				if len(samples) < 6 {
					samples = append(samples, map[string]any{"obligation": ob.Name, "kind": ob.Kind, "solver": ob.Res.Solver, "seconds": round3(ob.Res.Seconds), "at": ob.Pos})
				}
			} else {
				failedObs = append(failedObs, ob)
				failedVC[ob] = fr.vc
			}
		}
	}
	sort.Strings(funcs)
	var knownLines []string
	for _, ob := range failedObs {
		// A function with a loop the contract has no invariant for (a loop was added, or the ordinals shifted) is
		// not bound by its contract any more: what fails to prove there is undecided, not refuted (DESIGN 2.9).
		if vcx := failedVC[ob]; vcx != nil && hasUnboundLoop(vcx) {
			out.Undecided = append(out.Undecided, fmt.Sprintf("%s: not decided - the function has a loop without an invariant, so its contract no longer binds", ob.Name))
			continue
		}
		if k := isKnown(ob.Name); k != nil {
			knownLines = append(knownLines, fmt.Sprintf("KNOWN-FINDING: property=%s %s | %s", id, ob.Name, k.Text))
			continue
		}
		v := writeReplay(out, ob, failedVC[ob], len(out.Violations) < 3)
		out.Violations = append(out.Violations, v)
	}
	for _, b := range out.Bounded {
		for _, f := range b.Failures {
			if k := isKnown(f.Key); k != nil {
				knownLines = append(knownLines, fmt.Sprintf("KNOWN-FINDING: property=%s %s | %s", id, f.Key, k.Text))
				continue
			}
			out.Violations = append(out.Violations, writeBoundedReplay(out, b, f))
		}
		if b.Error != "" {
			out.Undecided = append(out.Undecided, "bounded check "+b.Name+": "+b.Error)
		}
	}
	wall := time.Since(out.Start).Seconds()

	// evidence
	level := "proof"
	if len(knownLines) > 0 {
		level = "other"
	}
	trusted := []string{"go/packages + go/types + go/ssa (x/tools v0.50.0) translate the source faithfully (A-SSA)", "SMT solvers z3 5.1.0 / z3 4.8.12 / cvc5 1.0.3: an unsat answer is right (A-SMT)", "gocv VC generator (this repository)"}
	cov := map[string]any{
		"obligations":              total,
		"discharged":               discharged,
		"checker_cmd":              fmt.Sprintf("bin/gocv check --tier %s %s", out.Tier, id),
		"trusted_base":             trusted,
		"functions_under_contract": funcs,
		"discharged_by_backend":    perSolver,
		"solver_seconds":           round3(solverSeconds),
		"covers_checked":           covers,
		"covers_vacuous":           vacuous,
		"cross_check":              crossSummary(out),
		"samples":                  samples,
		"known_findings":           knownLines,
		"undecided":                out.Undecided,
	}
	if len(out.Bounded) > 0 {
		var bs []any
		for _, b := range out.Bounded {
			bs = append(bs, b.Evidence())
		}
		cov["bounded"] = bs
	}
	if level == "other" {
		cov["explanation"] = fmt.Sprintf("contract-based deductive verification; %d of %d obligations discharged; the undischarged ones are the listed known findings (genuine defects recorded in known_findings.txt), so the proof-level claim is not made for this property", discharged, total)
	}
	if total == 0 {
		// nothing generated: never report success silently
		out.Undecided = append(out.Undecided, "no obligations were generated for this property")
		cov["undecided"] = out.Undecided
		level = "other"
		cov["explanation"] = "no obligations generated"
	}
	var asm []string
	for a := range assumptions {
		asm = append(asm, a)
	}
	sort.Strings(asm)
	for _, b := range out.Bounded {
		asm = append(asm, b.Assumptions...)
	}
	ev := map[string]any{
		"property_id": id,
		"tier":        out.Tier,
		"seed":        out.Seed,
		"level":       level,
		"coverage":    cov,
		"assumptions": asm,
		"wall_s":      round3(wall),
		"violations":  len(out.Violations),
	}
	evDir := filepath.Join(verifDir(), "evidence")
	if d := os.Getenv("GOCV_EVIDENCE_DIR"); d != "" {
		evDir = d // self-tests on mutated scratch copies must not overwrite the real evidence
	}
	os.MkdirAll(evDir, 0o755)
	data, _ := json.MarshalIndent(ev, "", " ")
	os.WriteFile(filepath.Join(evDir, id+".json"), append(data, '\n'), 0o644)

	// console
	fmt.Printf("property %s tier=%s: %d functions, %d/%d obligations discharged, %d covers, %.1fs\n", id, out.Tier, len(out.Funcs), discharged, total, covers, wall)
	if verbose {
		for _, fr := range out.Funcs {
			t, d, _ := summarize(fr.obs)
			fmt.Printf("  %-60s [%s] %d/%d\n", fr.name, fr.mode, d, t)
		}
	}
	for _, b := range out.Bounded {
		fmt.Printf("  bounded %s: %d cases, %d failures (bound: %s)\n", b.Name, b.Evaluations, len(b.Failures), b.Bound)
	}
	for _, l := range knownLines {
		fmt.Println(l)
	}
	for _, v := range out.Violations {
		tail := ""
		if v.NoInput {
			tail = " no-failing-input-found"
		}
		fmt.Printf("  failed obligation: %s\n", v.Obligation)
		fmt.Printf("VIOLATION property=%s replay=%s%s\n", id, v.Replay, tail)
	}
	if len(out.Violations) > 0 {
		return 1
	}
	if len(out.Undecided) > 0 {
		for _, u := range out.Undecided {
			fmt.Printf("UNDECIDED property=%s reason=%s\n", id, u)
		}
		return 2
	}
	return 0
}

// hasUnboundLoop: the VC generator met a loop for which the contract gives no invariant.
func hasUnboundLoop(vc *VC) bool {
	for _, u := range vc.unsupported {
		if strings.Contains(u, "has no invariant") {
			return true
		}
	}
	return false
}

func round3(x float64) float64 { return float64(int(x*1000+0.5)) / 1000 }

// writeReplay records a failed obligation: name, function, solver verdict, the
// model (if any) restricted to the function's inputs, and the full solver output.
func replayDir() string {
	if d := os.Getenv("GOCV_REPLAY_DIR"); d != "" {
		return d
	}
	return filepath.Join(verifDir(), "replays")
}

func writeReplay(out *propOutcome, ob *Obligation, vc *VC, withModel bool) violation {
	dir := replayDir()
	os.MkdirAll(dir, 0o755)
	file := filepath.Join(dir, fmt.Sprintf("%s_%s.json", out.ID, hashStr(ob.Name)))
	rep := map[string]any{
		"property":   out.ID,
		"obligation": ob.Name,
		"kind":       ob.Kind,
		"function":   ob.Func,
		"mode":       ob.Mode,
		"at":         ob.Pos,
		"solver":     ob.Res.Solver,
		"status":     ob.Res.Status,
	}
	v := violation{Obligation: ob.Name, Replay: file, NoInput: true}
	if !withModel {
		rep["note"] = "model search skipped (only the first violations of a run are replayed)"
		data, _ := json.MarshalIndent(rep, "", " ")
		os.WriteFile(file, append(data, '\n'), 0o644)
		return v
	}
	// ask for a model
	script := vc.obligationScript(ob, true)
	res := Solve(script, 10, []int{0, 1})
	if res.Status != "sat" {
		// quantified background axioms keep the solvers from ever answering "sat"; a candidate input is
		// enough here, because only a replay on the real code can turn it into a confirmed failing input
		if r2 := Solve(relaxedScript(script), 10, []int{0, 1}); r2.Status == "sat" {
			res = r2
			rep["model_from"] = "relaxed query (quantified assumptions dropped); a candidate only - see replay"
		}
	}
	rep["solver_output"] = truncate(res.Output, 20000)
	if res.Status == "sat" {
		inputs := modelInputs(res.Output, vc)
		rep["model_inputs"] = inputs
		ok, detail := tryReplay(vc, ob, inputs)
		rep["replay"] = detail
		if ok {
			v.NoInput = false
		}
	} else {
		rep["note"] = "the solver produced no model (" + res.Status + "); the obligation was discharged on the unchanged tree and is not discharged now"
	}
	// no confirmed input from a solver model: for small-input function shapes, search the real code's
	// behaviour on a stated finite domain for an input that falsifies the obligation
	if v.NoInput && searchHarness != nil && searchHarness.Match(vc, ob) {
		ok, detail := searchHarness.Run(vc, ob, nil)
		rep["replay_search"] = detail
		if ok {
			v.NoInput = false
		}
	}
	data, _ := json.MarshalIndent(rep, "", " ")
	os.WriteFile(file, append(data, '\n'), 0o644)
	return v
}

func truncate(s string, n int) string {
	if len(s) > n {
		return s[:n] + "…"
	}
	return s
}

// modelInputs extracts the values of parameters and entry-state symbols from a model.
func modelInputs(output string, vc *VC) map[string]string {
	res := map[string]string{}
	// (define-fun p_x () Sort value)
	text := output
	for {
		i := strings.Index(text, "(define-fun ")
		if i < 0 {
			break
		}
		text = text[i:]
		sx := firstSexp(text)
		text = text[len(sx):]
		body := sx[len("(define-fun ") : len(sx)-1]
		name := firstSexp(body)
		rest := strings.TrimSpace(body[len(name):])
		argsx := firstSexp(rest)
		rest = strings.TrimSpace(rest[len(argsx):])
		sort := firstSexp(rest)
		val := strings.TrimSpace(rest[len(sort):])
		if strings.HasPrefix(name, "p_") || strings.HasPrefix(name, "fv_") {
			res[name] = strings.Join(strings.Fields(val), " ")
		}
	}
	return res
}

// crossSummary: thorough tier only - how many discharged obligations were re-decided by another solver family.
func crossSummary(out *propOutcome) map[string]any {
	if out.Tier != "thorough" {
		return map[string]any{"enabled": false, "note": "quick tier: first definitive answer of the portfolio wins"}
	}
	checked, confirmed, disagreements := 0, 0, 0
	by := map[string]int{}
	for _, fr := range out.Funcs {
		for _, ob := range fr.obs {
			if ob.Cover || len(ob.Cross) == 0 {
				continue
			}
			checked++
			ok := false
			for _, r := range ob.Cross {
				if r.Status == "unsat" {
					ok = true
					by[r.Solver]++
				}
				if r.Status == "sat" {
					disagreements++
				}
			}
			if ok {
				confirmed++
			}
		}
	}
	return map[string]any{"enabled": true, "obligations_rechecked": checked, "confirmed_by_a_second_solver_family": confirmed,
		"confirmations_by_backend": by, "disagreements": disagreements,
		"note": "each other solver family (z3 5.1.0, z3 4.8.12, cvc5 1.0.3) re-decides the script alone, 10 s; a timeout is not a disagreement"}
}

// relaxedScript drops every quantified assumption (not the goal, which is the last assert) from a script.
func relaxedScript(script string) string {
	lines := strings.Split(script, "\n")
	last := -1
	for i, l := range lines {
		if strings.HasPrefix(l, "(assert ") {
			last = i
		}
	}
	var out []string
	for i, l := range lines {
		if i != last && strings.HasPrefix(l, "(assert ") && (strings.Contains(l, "(forall ") || strings.Contains(l, "(exists ")) {
			// the definition of the index-addition symbol (ix_ a b) = a + b is kept: it is a definition,
			// has its own trigger, and without it no fact about slice elements is usable
			if !strings.Contains(l, "(ix_ a b)") {
				continue
			}
		}
		out = append(out, l)
	}
	return strings.Join(out, "\n")
}

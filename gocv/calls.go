package main

import (
	"fmt"
	"go/token"
	"go/types"
	"math/big"
	"sort"
	"strings"

	"golang.org/x/tools/go/ssa"
)

// ---------------------------------------------------------------- locations

type pathStep struct {
	field bool
	k     int64
}

type locSpec struct {
	guard  Term // when non-empty: the location is assignable only if the guard holds (case clauses)
	object bool        // every cell of the object ref points into (byte-level writes through casts)
	mapRef Term        // whole Go map (content and domain) at this reference
	mapTy  *types.Map
	ghost  string // state name of a ghost variable (whole)
	ref    Term   // single leaf
	ti     *typeInfo
	lt     types.Type
	// range: every leaf at path under elem(arr, i), lo <= i < hi
	isRange bool
	arr     Term
	lo, hi  Term
	path    []pathStep
	text    string
}

// leafPaths enumerates the leaf cells below a cell of type t as selector paths.
func (vc *VC) leafPaths(t types.Type, prefix []pathStep, f func(path []pathStep, ti *typeInfo, lt types.Type)) {
	ti := vc.info(t)
	switch ti.kind {
	case "struct":
		for i := 0; i < ti.st.NumFields(); i++ {
			vc.leafPaths(ti.st.Field(i).Type(), append(append([]pathStep{}, prefix...), pathStep{true, int64(i)}), f)
		}
	case "array":
		if ti.arr.Len() <= 8 {
			for i := int64(0); i < ti.arr.Len(); i++ {
				vc.leafPaths(ti.arr.Elem(), append(append([]pathStep{}, prefix...), pathStep{false, i}), f)
			}
			return
		}
		vc.unsupp("large array inside ranged location")
	default:
		f(prefix, ti, t)
	}
}

func (vc *VC) applyPath(cell Term, path []pathStep) Term {
	for _, s := range path {
		if s.field {
			cell = vc.fld(cell, int(s.k))
		} else {
			cell = vc.elem(cell, vc.idxLit(s.k))
		}
	}
	return cell
}

// matchPath: r is the leaf at path below some cell; returns the condition and that cell.
func (vc *VC) matchPath(r Term, path []pathStep) (Term, Term) {
	var conds []Term
	cur := r
	for i := len(path) - 1; i >= 0; i-- {
		s := path[i]
		if s.field {
			conds = append(conds, App(SBool, "(_ is fld)", cur), Eq(App(SInt, "fidx", cur), IntLit(s.k)))
			cur = App(SRef, "fbase", cur)
		} else {
			conds = append(conds, App(SBool, "(_ is elem)", cur), Eq(App(vc.idxSort(), "eidx", cur), vc.idxLit(s.k)))
			cur = App(SRef, "ebase", cur)
		}
	}
	return And(conds...), cur
}

// inRangeLoc: leaf ref r belongs to the ranged location l.
func (vc *VC) inRangeLoc(r Term, l locSpec) Term {
	c, cell := vc.matchPath(r, l.path)
	i := App(vc.idxSort(), "eidx", cell)
	return And(c, App(SBool, "(_ is elem)", cell), Eq(App(SRef, "ebase", cell), l.arr), vc.le(l.lo, i, true), vc.lt(i, l.hi, true))
}

func (vc *VC) evalLocs(exprs []SExpr, env *Env) (locs []locSpec) {
	for _, e := range exprs {
		func() {
			defer func() {
				if r := recover(); r != nil {
					if se, ok := r.(specError); ok {
						vc.unsupp("assigns %s: %s", e, string(se))
						return
					}
					panic(r)
				}
			}()
			locs = append(locs, vc.evalLoc(e, env)...)
		}()
	}
	return
}

func (vc *VC) evalLoc(e SExpr, env *Env) []locSpec {
	// K.* : every ghost variable with that prefix
	if b, ok := e.(*SBinary); ok && b.Op == "*" {
		if sel, ok := b.X.(*SSelect); ok && sel.Sel == "" {
			_ = sel
		}
	}
	if name, ok := dottedName(e); ok && strings.HasSuffix(name, "._all") {
		prefix := strings.TrimSuffix(name, "_all")
		var out []locSpec
		for _, gv := range vc.specs.Ghosts {
			if strings.HasPrefix(gv.Name, prefix) {
				if g := vc.ghostVar(gv.Name); g != nil {
					out = append(out, locSpec{ghost: g.stateName, text: gv.Name})
				}
			}
		}
		return out
	}
	if name, ok := dottedName(e); ok {
		if g := vc.ghostVar(name); g != nil {
			return []locSpec{{ghost: g.stateName, text: name}}
		}
	}
	var out []locSpec
	addCell := func(ref Term, t types.Type, text string) {
		vc.leaves(ref, t, func(r Term, ti *typeInfo, lt types.Type) {
			if ti.kind == "array" {
				// large array cell: all its elements
				vc.leafPaths(ti.arr.Elem(), nil, func(path []pathStep, eti *typeInfo, elt types.Type) {
					out = append(out, locSpec{isRange: true, arr: r, lo: vc.idxLit(0), hi: vc.idxLit(ti.arr.Len()), path: path, ti: eti, lt: elt, text: text})
				})
				return
			}
			out = append(out, locSpec{ref: r, ti: ti, lt: lt, text: text})
		})
	}
	// package-level variable
	if name, ok := dottedName(e); ok {
		pkg := env.pkg
		vn := name
		if i := strings.LastIndex(name, "."); i >= 0 {
			if p := vc.findPackage(name[:i], env.pkg); p != nil {
				pkg, vn = p, name[i+1:]
			}
		}
		if pkg != nil {
			if _, isBound := env.bound[vn]; !isBound {
				if sp := vc.prog.SSA.Package(pkg); sp != nil {
					if g := sp.Var(vn); g != nil {
						if o, ok := pkg.Scope().Lookup(vn).(*types.Var); ok {
							addCell(vc.globalRef(g), o.Type(), name)
							return out
						}
					}
				}
			}
		}
	}
	switch e := e.(type) {
	case *SIdent:
		if d, ok := env.derefs[e.Name]; ok {
			addCell(d.cell, d.elem, e.String())
		} else {
			specFail("bad location %s", e)
		}
	case *SSelect, *SIndex:
		ref, t := vc.lvalue(e, env)
		addCell(ref, t, e.String())
	case *SCall:
		switch e.Fn {
		case "all":
			base := vc.evalSpec(e.Args[0], env)
			sl, ok := base.Ty.Go.Underlying().(*types.Slice)
			if !ok {
				specFail("all(x): x must be a slice")
			}
			off := vc.sliceOff(base.T)
			vc.leafPaths(sl.Elem(), nil, func(path []pathStep, ti *typeInfo, lt types.Type) {
				out = append(out, locSpec{isRange: true, arr: vc.sliceArr(base.T), lo: off, hi: vc.add(off, vc.sliceLen(base.T)), path: path, ti: ti, lt: lt, text: e.String()})
			})
		case "allcap":
			base := vc.evalSpec(e.Args[0], env)
			sl, ok := base.Ty.Go.Underlying().(*types.Slice)
			if !ok {
				specFail("allcap(x): x must be a slice")
			}
			off := vc.sliceOff(base.T)
			vc.leafPaths(sl.Elem(), nil, func(path []pathStep, ti *typeInfo, lt types.Type) {
				out = append(out, locSpec{isRange: true, arr: vc.sliceArr(base.T), lo: off, hi: vc.add(off, vc.sliceCap(base.T)), path: path, ti: ti, lt: lt, text: e.String()})
			})
		case "object":
			p := vc.evalSpec(e.Args[0], env)
			out = append(out, locSpec{object: true, ref: vc.refOf(p), text: e.String()})
		case "mapof":
			m := vc.evalSpec(e.Args[0], env)
			mt, ok := m.Ty.Go.Underlying().(*types.Map)
			if !ok {
				specFail("mapof(m): m must be a Go map")
			}
			out = append(out, locSpec{mapRef: m.T, mapTy: mt, text: e.String()})
		case "bytes":
			// bytes(p, n): the n bytes starting at the byte pointer p (p points into a byte array)
			p := vc.evalSpec(e.Args[0], env)
			n := vc.toIdx(vc.materialize(vc.evalSpec(e.Args[1], env), goTy(types.Typ[types.Int])))
			ref := vc.refOf(p)
			lo := App(vc.idxSort(), "eidx", ref)
			out = append(out, locSpec{isRange: true, arr: App(SRef, "ebase", ref), lo: lo, hi: vc.add(lo, n), ti: vc.info(types.Typ[types.Uint8]), lt: types.Typ[types.Uint8], text: e.String()})
		case "deref":
			base := vc.evalSpec(e.Args[0], env)
			pt, ok := base.Ty.Go.Underlying().(*types.Pointer)
			if !ok {
				specFail("deref(p): p must be a pointer")
			}
			addCell(base.T, pt.Elem(), e.String())
		case "deref_as":
			// deref_as(p, T): the cell(s) of a T at the untyped pointer p
			if len(e.Args) != 2 {
				specFail("deref_as(p, T)")
			}
			base := vc.evalSpec(e.Args[0], env)
			tn, ok := dottedName(e.Args[1])
			if !ok {
				specFail("deref_as: second argument must be a type name")
			}
			ty := vc.parseSpecType(tn, env.pkg)
			addCell(vc.refOf(base), ty.Go, e.String())
		default:
			specFail("bad location %s", e)
		}
	default:
		specFail("bad location %s", e)
	}
	return out
}

// lvalue evaluates an addressable specification expression to (reference, type).
func (vc *VC) lvalue(e SExpr, env *Env) (Term, types.Type) {
	switch e := e.(type) {
	case *SIdent:
		// a captured variable: its cell
		if d, ok := env.derefs[e.Name]; ok {
			return d.cell, d.elem
		}
	case *SSelect:
		// base may be a pointer value or itself an lvalue of struct type
		var ref Term
		var t types.Type
		if r2, t2, ok := vc.tryLvalue(e.X, env); ok {
			if _, isStruct := t2.Underlying().(*types.Struct); isStruct {
				ref, t = r2, t2
			}
		}
		if t == nil {
			base := vc.evalSpec(e.X, env)
			if base.Ty == nil || base.Ty.Go == nil {
				specFail("bad location %s", e)
			}
			pt, ok := base.Ty.Go.Underlying().(*types.Pointer)
			if !ok {
				specFail("location %s: base is neither a pointer nor addressable", e)
			}
			ref, t = base.T, pt.Elem()
		}
		_, index := vc.lookupFieldAnyPkg(t, e.Sel)
		if index == nil {
			specFail("location %s: no such field", e)
		}
		for _, fi := range index {
			ti := vc.info(t)
			if ti.kind != "struct" {
				specFail("location %s: embedded pointer not supported", e)
			}
			ref = vc.fld(ref, fi)
			t = ti.st.Field(fi).Type()
		}
		return ref, t
	case *SIndex:
		i := vc.toIdx(vc.materialize(vc.evalSpec(e.I, env), goTy(types.Typ[types.Int])))
		if r2, t2, ok := vc.tryLvalue(e.X, env); ok {
			if a, isArr := t2.Underlying().(*types.Array); isArr {
				return vc.elem(r2, i), a.Elem()
			}
		}
		base := vc.evalSpec(e.X, env)
		switch u := base.Ty.Go.Underlying().(type) {
		case *types.Slice:
			return vc.elemAt(vc.sliceArr(base.T), vc.sliceOff(base.T), i), u.Elem()
		case *types.Pointer:
			if a, ok := u.Elem().Underlying().(*types.Array); ok {
				return vc.elem(base.T, i), a.Elem()
			}
		}
		specFail("bad indexed location %s", e)
	case *SCall:
		if e.Fn == "deref" && len(e.Args) == 1 {
			base := vc.evalSpec(e.Args[0], env)
			pt, ok := base.Ty.Go.Underlying().(*types.Pointer)
			if !ok {
				specFail("deref(p): p must be a pointer")
			}
			return base.T, pt.Elem()
		}
	}
	specFail("not addressable: %s", e)
	return Term{}, nil
}

func (vc *VC) tryLvalue(e SExpr, env *Env) (ref Term, t types.Type, ok bool) {
	switch e.(type) {
	case *SSelect, *SIndex, *SCall, *SIdent:
	default:
		return Term{}, nil, false
	}
	defer func() {
		if r := recover(); r != nil {
			if _, isSpec := r.(specError); isSpec {
				ok = false
				return
			}
			panic(r)
		}
	}()
	ref, t = vc.lvalue(e, env)
	return ref, t, true
}

// inLocs: leaf cell r (in memory array memName) is covered by locs.
func (vc *VC) inLocs(r Term, memName string, locs []locSpec) Term {
	var alts []Term
	g := func(l locSpec, t Term) Term {
		if l.guard.S != "" {
			return And(l.guard, t)
		}
		return t
	}
	for _, l := range locs {
		if l.object {
			alts = append(alts, g(l, And(Not(Eq(l.ref, TNull)), Eq(vc.rootOf(r), vc.rootOf(l.ref)))))
			continue
		}
		if l.ghost != "" || l.mapTy != nil || vc.memName(l.ti) != memName {
			continue
		}
		if l.isRange {
			alts = append(alts, g(l, vc.inRangeLoc(r, l)))
		} else {
			alts = append(alts, g(l, Eq(r, l.ref)))
		}
	}
	return Or(alts...)
}

// frameCheck: a store must go to a freshly allocated object or to a declared location.
func (f *frame) frameCheck(addr Term, t types.Type, pos token.Pos, addrVal ssa.Value) {
	vc := f.vc
	if vc.con == nil || !vc.con.HasAssigns || vc.topFrame == nil || !vc.topFrame.safety {
		return
	}
	// syntactic shortcut: address derived from an allocation of the function under contract
	if derivesFromAlloc(addrVal) {
		return
	}
	fresh := App(SBool, ">=", vc.rootOf(addr), vc.topFrame.entryAlloc)
	var conds []Term
	vc.leaves(addr, t, func(r Term, ti *typeInfo, lt types.Type) {
		if ti.kind == "array" {
			return
		}
		conds = append(conds, vc.inLocs(r, vc.memName(ti), vc.topLocs))
	})
	cond := Or(fresh, And(conds...))
	if vc.pass == 2 {
		text := f.srcText(pos, "assign")
		vc.addObligation("frame", text, vc.con.FrameProps, pos, f.reach, cond)
	}
}

// frameCheckLocs: what a callee may assign must be fresh or assignable by the function under contract.
func (f *frame) frameCheckLocs(callee string, locs []locSpec, guard Term, pos token.Pos) {
	vc := f.vc
	if vc.con == nil || !vc.con.HasAssigns || vc.topFrame == nil || vc.pass != 2 || !vc.topFrame.safety {
		return
	}
	for _, l := range locs {
		var cond Term
		switch {
		case l.object:
			alts := []Term{Eq(l.ref, TNull), App(SBool, ">=", vc.rootOf(l.ref), vc.topFrame.entryAlloc)}
			for _, t := range vc.topLocs {
				if t.object {
					alts = append(alts, Eq(vc.rootOf(l.ref), vc.rootOf(t.ref)))
				}
			}
			cond = Or(alts...)
		case l.ghost != "":
			ok := false
			for _, t := range vc.topLocs {
				if t.ghost == l.ghost {
					ok = true
				}
			}
			if ok {
				continue
			}
			cond = TFalse
		case l.mapTy != nil:
			alts := []Term{App(SBool, ">=", vc.rootOf(l.mapRef), vc.topFrame.entryAlloc)}
			for _, t := range vc.topLocs {
				if t.mapTy != nil {
					alts = append(alts, Eq(l.mapRef, t.mapRef))
				}
			}
			cond = Or(alts...)
		case l.isRange:
			fresh := App(SBool, ">=", vc.rootOf(l.arr), vc.topFrame.entryAlloc)
			// covered by a range of the caller over the same array
			alts := []Term{fresh, vc.le(l.hi, l.lo, true)}
			for _, t := range vc.topLocs {
				if t.isRange && t.ti != nil && l.ti != nil && vc.memName(t.ti) == vc.memName(l.ti) && pathEq(t.path, l.path) {
					c := And(Eq(t.arr, l.arr), vc.le(t.lo, l.lo, true), vc.le(l.hi, t.hi, true))
					if t.guard.S != "" {
						c = And(t.guard, c)
					}
					alts = append(alts, c)
				}
			}
			cond = Or(alts...)
		default:
			fresh := App(SBool, ">=", vc.rootOf(l.ref), vc.topFrame.entryAlloc)
			// a location behind a nil pointer is not written (callees test for nil)
			cond = Or(fresh, vc.inLocs(l.ref, vc.memName(l.ti), vc.topLocs), vc.refIsUnderNull(l.ref))
		}
		vc.addObligation("frame", fmt.Sprintf("call %s assigns %s", callee, l.text), vc.con.FrameProps, pos, And(f.reach, guard), cond)
	}
}

// refIsUnderNull: the cell address is a field/element path below the nil pointer.
func (vc *VC) refIsUnderNull(ref Term) Term {
	s := ref.S
	base := ref
	for strings.HasPrefix(s, "(fld ") || strings.HasPrefix(s, "(elem ") {
		s = firstSexp(s[strings.Index(s, " ")+1:])
		base = Term{s, SRef}
	}
	return Eq(base, TNull)
}

func pathEq(a, b []pathStep) bool {
	if len(a) != len(b) {
		return false
	}
	for i := range a {
		if a[i] != b[i] {
			return false
		}
	}
	return true
}

func (f *frame) frameCheckMap(m Term, pos token.Pos) {
	vc := f.vc
	if vc.con == nil || !vc.con.HasAssigns || vc.topFrame == nil {
		return
	}
	alts := []Term{App(SBool, ">=", vc.rootOf(m), vc.topFrame.entryAlloc)}
	for _, l := range vc.topLocs {
		if l.mapTy != nil {
			alts = append(alts, Eq(m, l.mapRef))
		}
	}
	if vc.pass == 2 {
		vc.addObligation("frame", f.srcText(pos, "assign"), vc.con.FrameProps, pos, f.reach, Or(alts...))
	}
}

func derivesFromAlloc(v ssa.Value) bool {
	for {
		switch x := v.(type) {
		case *ssa.Alloc:
			return true
		case *ssa.FieldAddr:
			v = x.X
		case *ssa.IndexAddr:
			if _, ok := x.X.Type().Underlying().(*types.Pointer); ok {
				v = x.X
			} else {
				return false
			}
		default:
			return false
		}
	}
}

// ---------------------------------------------------------------- calls

func calleeName(common *ssa.CallCommon) string {
	if common.IsInvoke() {
		recv := common.Value.Type()
		name := recv.String()
		if n, ok := types.Unalias(recv).(*types.Named); ok {
			p := ""
			if n.Obj().Pkg() != nil {
				p = shortPkg(n.Obj().Pkg().Path()) + "."
			}
			name = p + n.Obj().Name()
		}
		return "iface:" + name + "." + common.Method.Name()
	}
	if fn := common.StaticCallee(); fn != nil {
		return FuncName(fn)
	}
	return ""
}

func (f *frame) call(ins ssa.Instruction, common *ssa.CallCommon, result ssa.Value) {
	vc := f.vc
	pos := ins.Pos()
	if b, ok := common.Value.(*ssa.Builtin); ok {
		f.builtin(b, common, result, pos)
		return
	}
	var args []Term
	var argTypes []types.Type
	var callee *ssa.Function
	var closure *ssa.MakeClosure
	name := calleeName(common)
	if common.IsInvoke() {
		recv := f.val(common.Value)
		f.safetyOb("nil", pos, "call", Not(Eq(recv, Term{"nil_iface", SIface})))
		args = append(args, recv)
		argTypes = append(argTypes, common.Value.Type())
	} else {
		callee = common.StaticCallee()
		if callee == nil {
			// closure value?
			if mc, ok := common.Value.(*ssa.MakeClosure); ok {
				closure = mc
			} else if mc := f.closureOf(common.Value); mc != nil {
				closure = mc
			}
			if closure != nil {
				callee = closure.Fn.(*ssa.Function)
				name = FuncName(callee)
			} else {
				name = "funcvalue:" + f.funcValueName(common.Value)
			}
		} else if mc, ok := common.Value.(*ssa.MakeClosure); ok {
			closure = mc
		}
	}
	for _, a := range common.Args {
		args = append(args, f.val(a))
		argTypes = append(argTypes, a.Type())
	}
	// receiver nil check for pointer-receiver methods
	if c0 := vc.specs.Contracts[name]; c0 != nil && c0.NilSafe {
		// the method tolerates a nil receiver
	} else if callee != nil && callee.Signature.Recv() != nil && len(common.Args) > 0 {
		if _, ok := callee.Signature.Recv().Type().Underlying().(*types.Pointer); ok {
			f.nilCheck(common.Args[0], pos)
		}
	}
	if callee == nil && !common.IsInvoke() {
		f.safetyOb("nil", pos, "call", Not(Eq(f.val(common.Value), TNull)))
	}
	con := vc.specs.Contracts[name]
	// callsite assertions of the function under contract
	f.callsiteAsserts(name, callee, common, args, argTypes, pos)

	var resTerm Term
	sig := common.Signature()
	switch {
	case con != nil && con.Kind == "inline" && callee != nil && len(callee.Blocks) > 0 && f.depth < 4:
		resTerm = f.inline(ins, callee, con, closure, args, sig)
	case con != nil:
		vc.noteCallee(name, con)
		vc.curClosure = closure
		resTerm = f.applyContract(name, con, callee, sig, args, argTypes, pos)
		vc.curClosure = nil
	default:
		resTerm = f.unknownCall(name, callee, sig, args, argTypes, pos)
	}
	if result != nil && sig.Results().Len() > 0 {
		f.vals[result] = resTerm
	}
}

func (f *frame) funcValueName(v ssa.Value) string {
	switch x := v.(type) {
	case *ssa.UnOp:
		if fa, ok := x.X.(*ssa.FieldAddr); ok {
			st := fa.X.Type().Underlying().(*types.Pointer).Elem()
			name := st.String()
			if n, ok := types.Unalias(st).(*types.Named); ok {
				name = shortPkg(n.Obj().Pkg().Path()) + "." + n.Obj().Name()
			}
			return name + "." + st.Underlying().(*types.Struct).Field(fa.Field).Name()
		}
	case *ssa.Extract:
		if c, ok := x.Tuple.(*ssa.Call); ok {
			if cn := calleeName(&c.Call); cn != "" {
				return fmt.Sprintf("%s.result%d", cn, x.Index)
			}
		}
	case *ssa.Parameter:
		return FuncName(f.fn) + "." + x.Name()
	case *ssa.Phi:
		return FuncName(f.fn) + "." + x.Comment
	}
	return v.Name()
}

func (f *frame) closureOf(v ssa.Value) *ssa.MakeClosure {
	switch x := v.(type) {
	case *ssa.MakeClosure:
		return x
	case *ssa.Phi:
		// a phi all of whose non-nil edges are the same closure is not resolved here
		return nil
	}
	return nil
}

func (vc *VC) noteCallee(name string, con *Contract) {
	kind := con.Kind
	if kind == "" {
		kind = "verified-separately"
	}
	vc.calleesUsed[name] = kind
	if kind == "trusted" || kind == "assumed" || kind == "model" {
		w := con.Why
		if w != "" {
			w = " — " + w
		}
		vc.assumptions[fmt.Sprintf("%s contract: %s%s", kind, name, w)] = true
	}
}

// calleeParamNames: names the contract can use for the arguments.
func calleeParamNames(con *Contract, callee *ssa.Function, sig *types.Signature, isInvoke bool, nargs int) []string {
	if con != nil && len(con.Params) > 0 {
		return con.Params
	}
	var names []string
	if callee != nil && len(callee.Params) == nargs {
		for _, p := range callee.Params {
			names = append(names, p.Name())
		}
		return names
	}
	if sig.Recv() != nil || isInvoke {
		n := "recv"
		if sig.Recv() != nil && sig.Recv().Name() != "" {
			n = sig.Recv().Name()
		}
		names = append(names, n)
	}
	for i := 0; i < sig.Params().Len(); i++ {
		n := sig.Params().At(i).Name()
		if n == "" || n == "_" {
			n = fmt.Sprintf("p%d", i)
		}
		names = append(names, n)
	}
	for len(names) < nargs {
		names = append(names, fmt.Sprintf("p%d", len(names)))
	}
	return names
}

func (f *frame) calleeEnv(con *Contract, callee *ssa.Function, sig *types.Signature, args []Term, argTypes []types.Type, st State, old State, pkg *types.Package) *Env {
	env := f.calleeEnv0(con, callee, sig, args, argTypes, st, old, pkg)
	// captured variables of a closure being called
	if cl := f.vc.curClosure; cl != nil && callee != nil && cl.Fn == callee {
		owner := f.vc.closureFrames[cl]
		if owner == nil {
			owner = f
		}
		env.derefs = map[string]derefBinding{}
		for i, fv := range callee.FreeVars {
			if i >= len(cl.Bindings) {
				break
			}
			b := owner.val(cl.Bindings[i])
			if pt, ok := fv.Type().Underlying().(*types.Pointer); ok && !strings.HasPrefix(b.S, "@local:") {
				env.derefs[fv.Name()] = derefBinding{cell: b, elem: pt.Elem()}
			} else {
				env.bound[fv.Name()] = TV{T: b, Ty: goTy(fv.Type())}
			}
		}
	}
	return env
}

func (f *frame) calleeEnv0(con *Contract, callee *ssa.Function, sig *types.Signature, args []Term, argTypes []types.Type, st State, old State, pkg *types.Package) *Env {
	names := calleeParamNames(con, callee, sig, false, len(args))
	bound := map[string]TV{}
	for i, n := range names {
		if i < len(args) {
			bound[n] = TV{T: args[i], Ty: goTy(argTypes[i])}
		}
	}
	if pkg == nil {
		pkg = f.pkg()
	}
	return &Env{vc: f.vc, bound: bound, state: st, old: old, pkg: pkg}
}

func calleePkg(callee *ssa.Function) *types.Package {
	if callee == nil {
		return nil
	}
	if callee.Pkg != nil {
		return callee.Pkg.Pkg
	}
	if callee.Object() != nil {
		return callee.Object().Pkg()
	}
	if callee.Parent() != nil {
		return calleePkg(callee.Parent())
	}
	return nil
}

// staticGuard decides a case guard when the arguments it mentions are constants.
func staticGuard(g Term) (val bool, known bool) {
	switch g.S {
	case "true":
		return true, true
	case "false":
		return false, true
	}
	// (= #x.. #x..) or (= 3 3)
	if strings.HasPrefix(g.S, "(= ") {
		rest := g.S[3 : len(g.S)-1]
		a := firstSexp(rest)
		b := strings.TrimSpace(rest[len(a):])
		if isLiteral(a) && isLiteral(b) {
			return a == b, true
		}
	}
	if strings.HasPrefix(g.S, "(not ") {
		v, k := staticGuard(Term{g.S[5 : len(g.S)-1], SBool})
		return !v, k
	}
	if strings.HasPrefix(g.S, "(and ") {
		rest := g.S[5 : len(g.S)-1]
		all := true
		for rest != "" {
			a := firstSexp(rest)
			rest = strings.TrimSpace(rest[len(a):])
			v, k := staticGuard(Term{a, SBool})
			if k && !v {
				return false, true
			}
			if !k {
				all = false
			}
		}
		if all {
			return true, true
		}
	}
	return false, false
}

func isLiteral(s string) bool {
	if strings.HasPrefix(s, "#x") || strings.HasPrefix(s, "#b") {
		return true
	}
	if s == "" {
		return false
	}
	for _, c := range s {
		if c < '0' || c > '9' {
			if strings.HasPrefix(s, "(- ") {
				return isLiteral(strings.TrimSuffix(s[3:], ")"))
			}
			return false
		}
	}
	return true
}

type selCase struct {
	c     *Case
	guard Term
}

func (f *frame) applyContract(name string, con *Contract, callee *ssa.Function, sig *types.Signature, args []Term, argTypes []types.Type, pos token.Pos) Term {
	vc := f.vc
	pre := f.cur.clone()
	pkg := calleePkg(callee)
	if pkg == nil {
		pkg = vc.contractPkg(con)
	}
	envPre := f.calleeEnv(con, callee, sig, args, argTypes, pre, pre, pkg)
	// select cases
	var sel []selCase
	var others []Term
	var deflt *Case
	for _, c := range con.Cases {
		if c.Guard == nil {
			deflt = c
			continue
		}
		g := f.evalClause(Clause{Expr: c.Guard, Text: c.GuardText, Src: con.Src}, envPre)
		if v, known := staticGuard(g); known {
			if v {
				sel = []selCase{{c, TTrue}}
				others = nil
				deflt = nil
				goto selected
			}
			continue
		}
		sel = append(sel, selCase{c, g})
		others = append(others, g)
	}
	if deflt != nil {
		sel = append(sel, selCase{deflt, Not(Or(others...))})
	}
selected:
	// preconditions
	for _, r := range con.Requires {
		if !f.modeOK(r.Mode) {
			continue
		}
		cond := f.evalClause(r, envPre)
		f.oblige("pre", fmt.Sprintf("%s requires %s", name, r.Text), nil, pos, cond)
	}
	for _, sc := range sel {
		for _, r := range sc.c.Requires {
			cond := f.evalClause(r, envPre)
			f.oblige("pre", fmt.Sprintf("%s requires %s", name, r.Text), nil, pos, Implies(sc.guard, cond))
		}
	}
	if con.NoReturn {
		// nothing after the call is reachable: its effects need not be modelled
		f.reach = TFalse
		nres := sig.Results().Len()
		if nres == 1 {
			return vc.zero(sig.Results().At(0).Type())
		} else if nres > 1 {
			return vc.freshConst(f.prefix+"_ret", vc.tupleInfo(sig.Results()).sort)
		}
		return Term{}
	}
	// havoc
	// even a pure callee may allocate its result (fresh(result) must stay satisfiable)
	f.havocAlloc()
	hasAnyAssigns := con.HasAssigns
	for _, sc := range sel {
		if sc.c.HasAssigns {
			hasAnyAssigns = true
		}
	}
	if !hasAnyAssigns && !con.Pure {
		if len(con.Cases) == 0 {
			f.havocAllMemory("call to " + name + " (contract has no assigns clause)")
		}
	} else {
		locs := vc.evalLocs(con.Assigns, envPre)
		f.frameCheckLocs(name, locs, TTrue, pos)
		f.havocLocs(locs, TTrue, pre)
		for _, sc := range sel {
			locs := vc.evalLocs(sc.c.Assigns, envPre)
			f.frameCheckLocs(name, locs, sc.guard, pos)
			f.havocLocs(locs, sc.guard, pre)
		}
	}
	// result
	var res Term
	var resTVs []TV
	nres := sig.Results().Len()
	if nres == 1 {
		res = vc.freshConst(f.prefix+"_ret", vc.info(sig.Results().At(0).Type()).sort)
		vc.assume(vc.typeInv(res, sig.Results().At(0).Type()))
		f.assumeAllocated(res, sig.Results().At(0).Type(), f.cur)
		resTVs = []TV{{T: res, Ty: goTy(sig.Results().At(0).Type())}}
	} else if nres > 1 {
		res = vc.freshConst(f.prefix+"_ret", vc.tupleInfo(sig.Results()).sort)
		vc.assume(vc.typeInv(res, sig.Results()))
		f.assumeAllocated(res, sig.Results(), f.cur)
		for i := 0; i < nres; i++ {
			resTVs = append(resTVs, TV{T: vc.tupleField(res, sig.Results(), i), Ty: goTy(sig.Results().At(i).Type())})
		}
	}
	// postconditions
	envPost := f.calleeEnv(con, callee, sig, args, argTypes, f.cur, pre, pkg)
	envPost.result = resTVs
	if resTVs == nil {
		envPost.result = []TV{}
	}
	f.bindNamedResults(envPost, callee, sig, resTVs)
	for _, e := range con.Ensures {
		if !f.modeOK(e.Mode) {
			continue
		}
		vc.assumePath(Implies(f.reach, f.evalClause(e, envPost)))
	}
	for _, sc := range sel {
		for _, e := range sc.c.Ensures {
			if !f.modeOK(e.Mode) {
				continue
			}
			vc.assumePath(Implies(And(f.reach, sc.guard), f.evalClause(e, envPost)))
		}
	}
	f.applyInvokes(con, envPre, envPost, pre)
	if con.NoReturn {
		f.reach = TFalse
	}
	return res
}

// applyInvokes: callbacks the callee may have run (see InvokeSpec).
func (f *frame) applyInvokes(con *Contract, envPre, envPost *Env, pre State) {
	vc := f.vc
	for _, inv := range con.Invokes {
		fnv := f.evalClauseTV(Clause{Expr: inv.Fn, Text: inv.Fn.String(), Src: inv.Src}, envPre)
		if fnv.T.Sort != SRef {
			vc.unsupp("%s: invokes: not a function value", inv.Src)
			continue
		}
		when := f.evalClause(Clause{Expr: inv.When, Text: inv.When.String(), Src: inv.Src}, envPost)
		var mcs []*ssa.MakeClosure
		for _, mc := range vc.closures {
			if vc.closureFrames[mc] == f {
				mcs = append(mcs, mc)
			}
		}
		sort.Slice(mcs, func(i, j int) bool { return mcs[i].Name() < mcs[j].Name() })
		for _, mc := range mcs {
			cfn := mc.Fn.(*ssa.Function)
			cc := vc.specs.Contracts[FuncName(cfn)]
			if cc == nil {
				vc.assumptions["callback "+FuncName(cfn)+" may run inside "+con.Func+" and has no contract: its writes to captured variables are not accounted for"] = true
				continue
			}
			guard := vc.define(f.prefix+"_cb", And(Eq(fnv.T, f.val(mc)), when))
			// arguments of the callback are unknown to the caller
			var args []Term
			var argTypes []types.Type
			for _, p := range cfn.Params {
				a := vc.freshConst(f.prefix+"_cbarg", vc.info(p.Type()).sort)
				vc.assume(vc.typeInv(a, p.Type()))
				args = append(args, a)
				argTypes = append(argTypes, p.Type())
			}
			vc.curClosure = mc
			cenvPre := f.calleeEnv(cc, cfn, cfn.Signature, args, argTypes, pre, pre, calleePkg(cfn))
			var heap []SExpr
			for _, a := range cc.Assigns {
				if name, ok := dottedName(a); ok && vc.ghostVar(name) != nil {
					continue // ghost effects are part of the callee's own contract
				}
				heap = append(heap, a)
			}
			f.havocLocs(vc.evalLocs(heap, cenvPre), guard, pre)
			cenvPost := f.calleeEnv(cc, cfn, cfn.Signature, args, argTypes, f.cur, pre, calleePkg(cfn))
			nres := cfn.Signature.Results().Len()
			var resTVs []TV
			for i := 0; i < nres; i++ {
				rt := cfn.Signature.Results().At(i).Type()
				r := vc.freshConst(f.prefix+"_cbres", vc.info(rt).sort)
				resTVs = append(resTVs, TV{T: r, Ty: goTy(rt)})
			}
			cenvPost.result = resTVs
			if resTVs == nil {
				cenvPost.result = []TV{}
			}
			for _, e := range cc.Ensures {
				if !f.modeOK(e.Mode) {
					continue
				}
				vc.assumePath(Implies(And(f.reach, guard), f.evalClause(e, cenvPost)))
			}
			vc.curClosure = nil
		}
	}
}

func (f *frame) bindNamedResults(env *Env, callee *ssa.Function, sig *types.Signature, res []TV) {
	for i := 0; i < sig.Results().Len() && i < len(res); i++ {
		n := sig.Results().At(i).Name()
		if n != "" && n != "_" {
			if _, clash := env.bound[n]; !clash {
				env.bound[n] = res[i]
			}
		}
	}
}

func (vc *VC) contractPkg(con *Contract) *types.Package {
	// the package prefix of the contract's function name
	name := con.Func
	name = strings.TrimPrefix(name, "iface:")
	if i := strings.Index(name, ".("); i >= 0 {
		return vc.findPackage(name[:i], nil)
	}
	if i := strings.LastIndex(name, "."); i >= 0 {
		p := name[:i]
		if pk := vc.findPackage(p, nil); pk != nil {
			return pk
		}
		if j := strings.LastIndex(p, "."); j >= 0 {
			return vc.findPackage(p[:j], nil)
		}
	}
	return nil
}

func (f *frame) havocAlloc() {
	vc := f.vc
	old := f.cur.get(vc, "$alloc")
	n := vc.freshConst("alloc", SInt)
	vc.assume(App(SBool, ">=", n, old))
	f.cur["$alloc"] = n
	f.recordMod("$alloc")
}

func (f *frame) havocAllMemory(why string) {
	vc := f.vc
	vc.assumptions["havoc-all-memory at "+why] = true
	names := append([]string{}, vc.stateOrder...)
	for _, k := range names {
		if strings.HasPrefix(k, "Mem_") || strings.HasPrefix(k, "Map") {
			f.cur[k] = vc.freshState(k)
			f.recordMod(k)
		}
	}
	// in pass 1 not all memory arrays are known yet; pass 2 sees them all
}

// havocLocs gives the listed locations arbitrary new contents (when guard holds).
func (f *frame) havocLocs(locs []locSpec, guard Term, pre State) {
	vc := f.vc
	// group ranged locations per memory array
	ranged := map[string][]locSpec{}
	for _, l := range locs {
		switch {
		case l.object:
			// all typed views of the object's cells change
			names := append([]string{}, vc.stateOrder...)
			for _, name := range names {
				if !strings.HasPrefix(name, "Mem_") {
					continue
				}
				cur := f.cur.get(vc, name)
				n := vc.freshState(name)
				r := Term{"qr", SRef}
				elemSort := Sort(strings.TrimSuffix(strings.TrimPrefix(string(vc.stateSort[name]), "(Array Ref "), ")"))
				same := Or(Not(guard), Eq(l.ref, TNull), Not(Eq(App(SInt, "root", r), vc.rootOf(l.ref))))
				vc.assume(Forall([]Term{r}, Implies(same, Eq(Select(n, r, elemSort), Select(cur, r, elemSort)))))
				f.cur[name] = n
				f.recordMod(name)
			}
		case l.mapTy != nil:
			c, d := vc.mapNames(l.mapTy)
			for _, name := range []string{c, d} {
				cur := f.cur.get(vc, name)
				es := vc.stateSort[name]
				// element sort of (Array Ref X) is X
				inner := Sort(strings.TrimSuffix(strings.TrimPrefix(string(es), "(Array Ref "), ")"))
				n := vc.freshConst("hm", inner)
				f.cur[name] = vc.define(stateSym(name), Store(cur, l.mapRef, Ite(guard, n, Select(cur, l.mapRef, inner))))
				f.recordMod(name)
			}
		case l.ghost != "":
			n := vc.freshState(l.ghost)
			f.cur[l.ghost] = vc.define(stateSym(l.ghost), Ite(guard, n, f.cur.get(vc, l.ghost)))
			f.recordMod(l.ghost)
		case l.isRange:
			ranged[vc.memName(l.ti)] = append(ranged[vc.memName(l.ti)], l)
		default:
			name := vc.memName(l.ti)
			v := vc.freshConst("hv", l.ti.sort)
			vc.assume(vc.typeInv(v, l.lt))
			f.assumeAllocatedLater(v, l.lt)
			cur := f.cur.get(vc, name)
			f.cur[name] = vc.define(stateSym(name), Store(cur, l.ref, Ite(guard, v, Select(cur, l.ref, l.ti.sort))))
			f.recordMod(name)
		}
	}
	var names []string
	for n := range ranged {
		names = append(names, n)
	}
	sort.Strings(names)
	for _, name := range names {
		ls := ranged[name]
		cur := f.cur.get(vc, name)
		n := vc.freshState(name)
		r := Term{"qr", SRef}
		var in []Term
		for _, l := range ls {
			in = append(in, vc.inRangeLoc(r, l))
		}
		elemSort := ls[0].ti.sort
		vc.assume(Forall([]Term{r}, Implies(Not(And(guard, Or(in...))), Eq(Select(n, r, elemSort), Select(cur, r, elemSort)))))
		if vc.mode == ModeInt && ls[0].ti.kind == "int" {
			vc.assume(Forall([]Term{r}, vc.inRange(Select(n, r, elemSort), ls[0].ti.bits, ls[0].ti.signed)))
		}
		f.cur[name] = n
		f.recordMod(name)
	}
}

func (f *frame) assumeAllocatedLater(v Term, t types.Type) {
	// values written by a callee were allocated before the call returned
	f.pendingAlloc = append(f.pendingAlloc, pendingAlloc{v, t})
	f.assumeAllocated(v, t, f.cur)
}

type pendingAlloc struct {
	v Term
	t types.Type
}

// unknownCall: no contract. Arbitrary result, memory reachable from pointer
// arguments (by type) is havocked; assumption A-EXT recorded.
func (f *frame) unknownCall(name string, callee *ssa.Function, sig *types.Signature, args []Term, argTypes []types.Type, pos token.Pos) Term {
	vc := f.vc
	vc.assumptions["A-EXT no contract for "+name+": arbitrary result, may write what its pointer arguments reach (by type), does not panic"] = true
	vc.calleesUsed[name] = "no-contract"
	if callee != nil && len(callee.Blocks) > 0 && callee.Pkg != nil && strings.HasPrefix(callee.Pkg.Pkg.Path(), modPath) {
		// a repository function without a contract may write anything
		f.havocAllMemory("call to repository function " + name + " which has no contract")
	}
	keys := map[string]bool{}
	seen := map[string]bool{}
	var walkT func(t types.Type, throughPtr bool)
	walkT = func(t types.Type, throughPtr bool) {
		k := t.String()
		if throughPtr {
			k = "*" + k
		}
		if seen[k] {
			return
		}
		seen[k] = true
		switch u := t.Underlying().(type) {
		case *types.Pointer:
			vc.memKeys(u.Elem(), keys)
			walkT(u.Elem(), true)
		case *types.Slice:
			vc.memKeys(u.Elem(), keys)
			walkT(u.Elem(), true)
		case *types.Struct:
			for i := 0; i < u.NumFields(); i++ {
				walkT(u.Field(i).Type(), throughPtr)
			}
		case *types.Array:
			walkT(u.Elem(), throughPtr)
		case *types.Map:
			c, d := vc.mapNames(u)
			keys[c] = true
			keys[d] = true
			vc.registerState("MapLen", ArrSort(SRef, vc.idxSort()))
			keys["MapLen"] = true
		}
	}
	for _, t := range argTypes {
		walkT(t, false)
	}
	var ks []string
	for k := range keys {
		ks = append(ks, k)
	}
	sort.Strings(ks)
	for _, k := range ks {
		f.cur[k] = vc.freshState(k)
		f.recordMod(k)
	}
	f.havocAlloc()
	nres := sig.Results().Len()
	var res Term
	if nres == 1 {
		res = vc.freshConst(f.prefix+"_ret", vc.info(sig.Results().At(0).Type()).sort)
		vc.assume(vc.typeInv(res, sig.Results().At(0).Type()))
		f.assumeAllocated(res, sig.Results().At(0).Type(), f.cur)
	} else if nres > 1 {
		res = vc.freshConst(f.prefix+"_ret", vc.tupleInfo(sig.Results()).sort)
		vc.assume(vc.typeInv(res, sig.Results()))
		f.assumeAllocated(res, sig.Results(), f.cur)
	}
	return res
}

// callsiteAsserts: `callsite <callee> [when g]: assert e` clauses of the function under contract.
func (f *frame) callsiteAsserts(name string, callee *ssa.Function, common *ssa.CallCommon, args []Term, argTypes []types.Type, pos token.Pos) {
	vc := f.vc
	if vc.con == nil || f.depth > 0 {
		return
	}
	for _, cs := range vc.con.Callsites {
		if !(name == cs.Callee || strings.HasSuffix(name, "."+cs.Callee) || strings.HasSuffix(name, cs.Callee)) {
			continue
		}
		if !f.modeOK(cs.Assert.Mode) {
			continue
		}
		calleeCon := vc.specs.Contracts[name]
		names := calleeParamNames(calleeCon, callee, common.Signature(), common.IsInvoke(), len(args))
		env := f.envAt(f.curBlock, f.curIdx, f.cur)
		for i, n := range names {
			if i < len(args) {
				// a callee parameter name may shadow a variable of the function under contract:
				// that variable stays reachable as caller_<name>
				if old, ok := env.bound[n]; ok {
					env.bound["caller_"+n] = old
				} else if d, ok := env.derefs[n]; ok {
					env.bound["caller_"+n] = TV{T: vc.load(env.state, d.cell, d.elem), Ty: goTy(d.elem)}
				} else if env.lookup != nil {
					if v, ok := env.lookup(n); ok {
						env.bound["caller_"+n] = v
					}
				}
				env.bound[n] = TV{T: args[i], Ty: goTy(argTypes[i])}
			}
		}
		env.callNames = names
		if cs.When != nil {
			g := f.evalClause(Clause{Expr: cs.When, Text: cs.When.String(), Src: cs.Assert.Src}, env)
			if v, known := staticGuard(g); known {
				if !v {
					continue
				}
				cond := f.evalClause(cs.Assert, env)
				f.vc.curGroup = cs.Assert.Group
				f.obligeNoAssume("callsite", fmt.Sprintf("%s: %s", cs.Callee, cs.Assert.Text), cs.Assert.Props, pos, cond)
				vc.callsiteHits[cs.Assert.Src]++
				continue
			}
			cond := f.evalClause(cs.Assert, env)
			f.vc.curGroup = cs.Assert.Group
			f.obligeNoAssume("callsite", fmt.Sprintf("%s: %s", cs.Callee, cs.Assert.Text), cs.Assert.Props, pos, Implies(g, cond))
			vc.callsiteHits[cs.Assert.Src]++
			continue
		}
		cond := f.evalClause(cs.Assert, env)
		f.vc.curGroup = cs.Assert.Group
		f.obligeNoAssume("callsite", fmt.Sprintf("%s: %s", cs.Callee, cs.Assert.Text), cs.Assert.Props, pos, cond)
		vc.callsiteHits[cs.Assert.Src]++
	}
}

// inline translates the callee's body in place.
func (f *frame) inline(ins ssa.Instruction, callee *ssa.Function, con *Contract, closure *ssa.MakeClosure, args []Term, sig *types.Signature) Term {
	vc := f.vc
	g := vc.newFrame(callee, con, f.depth+1)
	g.safety = f.safety
	g.old = f.cur.clone()
	for i, p := range callee.Params {
		if i < len(args) {
			g.vals[p] = args[i]
		}
	}
	if closure != nil {
		owner := vc.closureFrames[closure]
		for i, fv := range callee.FreeVars {
			if owner != nil {
				g.vals[fv] = owner.val(closure.Bindings[i])
			} else {
				g.vals[fv] = f.val(closure.Bindings[i])
			}
		}
	}
	// requires of an inlined callee are checked like any other
	env := g.envAt(callee.Blocks[0], 0, f.cur)
	for _, r := range con.Requires {
		cond := g.evalClause(r, env)
		f.oblige("pre", fmt.Sprintf("%s requires %s", FuncName(callee), r.Text), nil, ins.Pos(), cond)
	}
	vc.inlineStack = append(vc.inlineStack, ins)
	callerRegion := vc.regionStart
	g.walk(f.reach, f.cur)
	vc.inlineStack = vc.inlineStack[:len(vc.inlineStack)-1]
	// after the callee: the caller's region, unless the callee's loops started a later one on every return path
	vc.regionStart = callerRegion
	if len(g.loops) > 0 {
		minR := -1
		for _, b := range callee.Blocks {
			if len(b.Instrs) > 0 {
				if _, isRet := b.Instrs[len(b.Instrs)-1].(*ssa.Return); isRet {
					if r, ok := g.regionOut[b]; ok && (minR < 0 || r < minR) {
						minR = r
					}
				}
			}
		}
		if minR > callerRegion {
			vc.regionStart = minR
		}
	}
	vc.calleesUsed[FuncName(callee)] = "inlined"
	// merge returns
	if len(g.rets) == 0 {
		f.reach = TFalse
		if sig.Results().Len() == 0 {
			return Term{}
		}
		if sig.Results().Len() == 1 {
			return vc.zero(sig.Results().At(0).Type())
		}
		return vc.freshConst("noret", vc.tupleInfo(sig.Results()).sort)
	}
	var reaches []Term
	for _, r := range g.rets {
		reaches = append(reaches, r.reach)
	}
	f.reach = vc.define(f.prefix+"_r", Or(reaches...))
	// state
	keys := map[string]bool{}
	for _, r := range g.rets {
		for k := range r.st {
			keys[k] = true
		}
	}
	var ks []string
	for k := range keys {
		ks = append(ks, k)
	}
	sort.Strings(ks)
	newSt := f.cur
	for _, k := range ks {
		var t Term
		for i := len(g.rets) - 1; i >= 0; i-- {
			v := g.rets[i].st.get(vc, k)
			if t.S == "" {
				t = v
			} else {
				t = Ite(g.rets[i].reach, v, t)
			}
		}
		newSt[k] = vc.define(stateSym(k), t)
	}
	n := sig.Results().Len()
	if n == 0 {
		return Term{}
	}
	comp := make([]Term, n)
	for j := 0; j < n; j++ {
		var t Term
		for i := len(g.rets) - 1; i >= 0; i-- {
			v := g.rets[i].vals[j]
			if t.S == "" {
				t = v
			} else {
				t = Ite(g.rets[i].reach, v, t)
			}
		}
		comp[j] = t
	}
	if n == 1 {
		return vc.define(f.prefix+"_inl", comp[0])
	}
	return vc.define(f.prefix+"_inl", vc.mkTuple(sig.Results(), comp))
}

// ---------------------------------------------------------------- builtins

func (f *frame) builtin(b *ssa.Builtin, common *ssa.CallCommon, result ssa.Value, pos token.Pos) {
	vc := f.vc
	set := func(t Term) {
		if result != nil {
			f.setVal(result, t)
		}
	}
	switch b.Name() {
	case "len", "cap":
		x := f.val(common.Args[0])
		switch u := common.Args[0].Type().Underlying().(type) {
		case *types.Slice:
			if b.Name() == "len" {
				set(vc.sliceLen(x))
			} else {
				set(vc.sliceCap(x))
			}
		case *types.Basic:
			set(vc.strLen(x))
		case *types.Array:
			set(vc.idxLit(u.Len()))
		case *types.Pointer:
			set(vc.idxLit(u.Elem().Underlying().(*types.Array).Len()))
		case *types.Map:
			l := vc.mapLen(f.cur, x, u)
			set(Ite(Eq(x, TNull), vc.idxLit(0), l))
			vc.assume(vc.le(vc.idxLit(0), l, true))
		case *types.Chan:
			t := vc.freshConst("chanlen", vc.idxSort())
			vc.assume(vc.le(vc.idxLit(0), t, true))
			set(t)
		default:
			vc.unsupp("len of %s", common.Args[0].Type())
			if result != nil {
				f.havocVal(result)
			}
		}
	case "append":
		f.appendOp(common, result, pos)
	case "copy":
		f.copyOp(common, result)
	case "delete":
		mt := common.Args[0].Type().Underlying().(*types.Map)
		m, k := f.val(common.Args[0]), f.val(common.Args[1])
		_, d := vc.mapNames(mt)
		ks := vc.info(mt.Key()).sort
		od := f.cur.get(vc, d)
		f.cur[d] = vc.define(stateSym(d), Store(od, m, Store(Select(od, m, ArrSort(ks, SBool)), k, TFalse)))
		f.recordMod(d)
	case "print", "println":
	case "close":
		f.chanEvent("close", common.Args[0], nil, nil)
	case "min", "max":
		ti := vc.info(common.Args[0].Type())
		acc := f.val(common.Args[0])
		for _, a := range common.Args[1:] {
			x := f.val(a)
			if b.Name() == "min" {
				acc = Ite(vc.cmp("<", x, acc, ti.signed), x, acc)
			} else {
				acc = Ite(vc.cmp(">", x, acc, ti.signed), x, acc)
			}
		}
		set(acc)
	case "recover":
		set(Term{"nil_iface", SIface})
	case "ssa:wrapnilchk":
		f.nilCheck(common.Args[0], pos)
		set(f.val(common.Args[0]))
	default:
		vc.unsupp("builtin %s", b.Name())
		if result != nil {
			f.havocVal(result)
		}
	}
}

func (f *frame) appendOp(common *ssa.CallCommon, result ssa.Value, pos token.Pos) {
	vc := f.vc
	s := f.val(common.Args[0])
	st := common.Args[0].Type().Underlying().(*types.Slice)
	elemT := st.Elem()
	var tlen Term
	var srcCell func(j Term) Term // cell of source element j
	srcIsString := false
	var strSrc Term
	switch common.Args[1].Type().Underlying().(type) {
	case *types.Slice:
		t := f.val(common.Args[1])
		tlen = vc.sliceLen(t)
		srcCell = func(j Term) Term { return vc.elemAt(vc.sliceArr(t), vc.sliceOff(t), j) }
	case *types.Basic:
		strSrc = f.val(common.Args[1])
		tlen = vc.strLen(strSrc)
		srcIsString = true
	default:
		vc.unsupp("append source %s", common.Args[1].Type())
		if result != nil {
			f.havocVal(result)
		}
		return
	}
	ln, cp, off, arr := vc.sliceLen(s), vc.sliceCap(s), vc.sliceOff(s), vc.sliceArr(s)
	// append(s, e1..ek) with a small literal k (varargs array): no new quantified memory
	// version is needed. The element cells of a reallocated backing array are fresh memory,
	// so "they already hold the copied prefix" is an assumption about unobserved cells, and
	// the appended elements are plain stores.
	if sl, ok := common.Args[1].(*ssa.Slice); ok && !srcIsString && sl.Low == nil && sl.High == nil {
		if al, ok := sl.X.(*ssa.Alloc); ok {
			if at, ok := al.Type().Underlying().(*types.Pointer).Elem().Underlying().(*types.Array); ok && at.Len() <= 4 {
				k := at.Len()
				newlen := vc.define(f.prefix+"_newlen", vc.add(ln, vc.idxLit(k)))
				inplace := vc.define(f.prefix+"_inplace", vc.le(newlen, cp, true))
				newobj := vc.define(f.prefix+"_appobj", vc.newObj(f.cur, "append"))
				f.recordMod("$alloc")
				newcap := vc.freshConst(f.prefix+"_newcap", vc.idxSort())
				vc.assume(And(vc.le(newlen, newcap, true), vc.le(newcap, vc.intLit(new(big.Int).Lsh(big.NewInt(1), 40), 64), true)))
				if result != nil {
					f.setVal(result, Ite(inplace, vc.mkSlice(arr, off, newlen, cp), vc.mkSlice(newobj, vc.idxLit(0), newlen, newcap)))
				}
				// copied prefix (assumption about fresh cells)
				q := Term{"qi", vc.idxSort()}
				vc.inQuant++
				vc.leafPaths(elemT, nil, func(path []pathStep, ti *typeInfo, lt types.Type) {
					m := f.cur.get(vc, vc.memName(ti))
					vc.assume(Forall([]Term{q}, Implies(And(vc.le(vc.idxLit(0), q, true), vc.lt(q, ln, true)),
						Eq(Select(m, vc.applyPath(vc.elem(newobj, q), path), ti.sort), Select(m, vc.applyPath(vc.elemAt(arr, off, q), path), ti.sort)))))
				})
				vc.inQuant--
				// the new elements
				src := f.val(al)
				preApp := f.cur.clone()
				defer func() {
					// Derived ground instance (not an extra assumption: it follows from the stores below and the
					// copied-prefix fact above, for q = 0): element 0 of a non-empty slice is element 0 of the
					// result. Stated explicitly because chains of conditional appends otherwise need a 2^n case split.
					resArr, resOff := Ite(inplace, arr, newobj), Ite(inplace, off, vc.idxLit(0))
					// the same instance for q = the length at each earlier append of this (loop-free) function:
					// the element appended there keeps its place
					qs := []Term{vc.idxLit(0)}
					if len(f.loops) == 0 {
						qs = append(qs, f.appendLens...)
						f.appendLens = append(f.appendLens, ln)
					}
					vc.leafPaths(elemT, nil, func(path []pathStep, ti *typeInfo, lt types.Type) {
						mb := preApp.get(vc, vc.memName(ti))
						ma := f.cur.get(vc, vc.memName(ti))
						for _, q := range qs {
							vc.assume(Implies(And(vc.le(vc.idxLit(0), q, true), vc.lt(q, ln, true)),
								Eq(Select(ma, vc.applyPath(vc.elemAt(resArr, resOff, q), path), ti.sort),
									Select(mb, vc.applyPath(vc.elemAt(arr, off, q), path), ti.sort))))
						}
					})
				}()
				tgtArr := vc.define(f.prefix+"_apparr", Ite(inplace, arr, newobj))
				tgtOff := vc.define(f.prefix+"_appoff", Ite(inplace, vc.add(off, ln), ln))
				for j := int64(0); j < k; j++ {
					v := vc.load(f.cur, vc.elem(src, vc.idxLit(j)), elemT)
					cell := vc.elem(tgtArr, vc.add(tgtOff, vc.idxLit(j)))
					keys := map[string]bool{}
					vc.memKeys(elemT, keys)
					for kk := range keys {
						f.recordMod(kk)
					}
					vc.storeMem(f.cur, cell, elemT, v)
				}
				return
			}
		}
	}
	newlen := vc.define(f.prefix+"_newlen", vc.add(ln, tlen))
	inplace := vc.define(f.prefix+"_inplace", vc.le(newlen, cp, true))
	newobj := vc.define(f.prefix+"_appobj", vc.newObj(f.cur, "append"))
	f.recordMod("$alloc")
	newcap := vc.freshConst(f.prefix+"_newcap", vc.idxSort())
	vc.assume(And(vc.le(newlen, newcap, true), vc.le(newcap, vc.intLit(new(big.Int).Lsh(big.NewInt(1), 40), 64), true)))
	// Go: appending nothing to a nil slice yields nil; in general when tlen==0 the result is s itself
	res := Ite(inplace, vc.mkSlice(arr, off, newlen, cp), vc.mkSlice(newobj, vc.idxLit(0), newlen, newcap))
	if result != nil {
		f.setVal(result, res)
	}
	// memory
	pre := f.cur.clone()
	vc.leafPaths(elemT, nil, func(path []pathStep, ti *typeInfo, lt types.Type) {
		name := vc.memName(ti)
		old := pre.get(vc, name)
		cur := f.cur.get(vc, name)
		n := vc.freshState(name)
		r := Term{"qr", SRef}
		c, cell := vc.matchPath(r, path)
		isElem := And(c, App(SBool, "(_ is elem)", cell))
		base := App(SRef, "ebase", cell)
		i := App(vc.idxSort(), "eidx", cell)
		srcVal := func(j Term) Term {
			if srcIsString {
				return App(ti.sort, "str.at_", strSrc, j)
			}
			return Select(old, vc.applyPath(srcCell(j), path), ti.sort)
		}
		// in place: cells [off+len, off+newlen) of arr get the source
		inTail := And(isElem, Eq(base, arr), vc.le(vc.add(off, ln), i, true), vc.lt(i, vc.add(off, newlen), true))
		tailVal := srcVal(vc.sub(i, vc.add(off, ln)))
		// realloc: cells [0,len) of newobj copy s, [len,newlen) get the source
		inNewHead := And(isElem, Eq(base, newobj), vc.le(vc.idxLit(0), i, true), vc.lt(i, ln, true))
		headVal := Select(old, vc.applyPath(vc.elemAt(arr, off, i), path), ti.sort)
		inNewTail := And(isElem, Eq(base, newobj), vc.le(ln, i, true), vc.lt(i, newlen, true))
		newTailVal := srcVal(vc.sub(i, ln))
		body := Ite(inplace,
			Ite(inTail, tailVal, Select(cur, r, ti.sort)),
			Ite(inNewHead, headVal, Ite(inNewTail, newTailVal, Select(cur, r, ti.sort))))
		vc.assume(Forall([]Term{r}, Eq(Select(n, r, ti.sort), body)))
		f.cur[name] = n
		f.recordMod(name)
	})
}

func (f *frame) copyOp(common *ssa.CallCommon, result ssa.Value) {
	vc := f.vc
	d := f.val(common.Args[0])
	dt := common.Args[0].Type().Underlying().(*types.Slice)
	var slen Term
	var srcVal func(old Term, j Term, path []pathStep, ti *typeInfo) Term
	switch common.Args[1].Type().Underlying().(type) {
	case *types.Slice:
		s := f.val(common.Args[1])
		slen = vc.sliceLen(s)
		srcVal = func(old Term, j Term, path []pathStep, ti *typeInfo) Term {
			return Select(old, vc.applyPath(vc.elemAt(vc.sliceArr(s), vc.sliceOff(s), j), path), ti.sort)
		}
	default:
		s := f.val(common.Args[1])
		slen = vc.strLen(s)
		srcVal = func(old Term, j Term, path []pathStep, ti *typeInfo) Term {
			return App(ti.sort, "str.at_", s, j)
		}
	}
	n := vc.define(f.prefix+"_copyn", Ite(vc.lt(vc.sliceLen(d), slen, true), vc.sliceLen(d), slen))
	if result != nil {
		f.setVal(result, n)
	}
	vc.leafPaths(dt.Elem(), nil, func(path []pathStep, ti *typeInfo, lt types.Type) {
		name := vc.memName(ti)
		old := f.cur.get(vc, name)
		nm := vc.freshState(name)
		r := Term{"qr", SRef}
		c, cell := vc.matchPath(r, path)
		i := App(vc.idxSort(), "eidx", cell)
		in := And(c, App(SBool, "(_ is elem)", cell), Eq(App(SRef, "ebase", cell), vc.sliceArr(d)),
			vc.le(vc.sliceOff(d), i, true), vc.lt(i, vc.add(vc.sliceOff(d), n), true))
		vc.assume(Forall([]Term{r}, Eq(Select(nm, r, ti.sort), Ite(in, srcVal(old, vc.sub(i, vc.sliceOff(d)), path, ti), Select(old, r, ti.sort)))))
		f.cur[name] = nm
		f.recordMod(name)
	})
}

// ---------------------------------------------------------------- concurrency events

// chanEvent models a channel operation as a call to a pseudo-function
// chan.<op>:<owner>.<field> which may carry a contract (protocol roles).
func (f *frame) chanEvent(op string, ch ssa.Value, ins ssa.Instruction, sent ssa.Value) {
	vc := f.vc
	name := "chan." + op + ":" + f.funcValueName(ch)
	con := vc.specs.Contracts[name]
	var pos token.Pos
	if ins != nil {
		pos = ins.Pos()
	}
	var resVal ssa.Value
	if v, ok := ins.(ssa.Value); ok && op == "recv" {
		resVal = v
	}
	if con != nil {
		vc.noteCallee(name, con)
		var args []Term
		var argTypes []types.Type
		args = append(args, f.val(ch))
		argTypes = append(argTypes, ch.Type())
		if sent != nil {
			args = append(args, f.val(sent))
			argTypes = append(argTypes, sent.Type())
		}
		var results *types.Tuple
		if resVal != nil {
			results = types.NewTuple(types.NewVar(token.NoPos, nil, "v", resVal.Type()))
			if u, ok := ins.(*ssa.UnOp); ok && u.CommaOk {
				results = u.Type().(*types.Tuple)
			}
		}
		sig := types.NewSignatureType(nil, nil, nil, types.NewTuple(), results, false)
		if con.Params == nil {
			// contracts of channel events name their arguments ch and v (set once at load time)
			c2 := *con
			c2.Params = []string{"ch", "v"}
			con = &c2
		}
		r := f.applyContract(name, con, nil, sig, args, argTypes, pos)
		if resVal != nil {
			f.vals[resVal] = r
		}
		return
	}
	vc.assumptions["A-CH channel operation "+name+" treated as an event without effect (no interleaving semantics)"] = true
	if resVal != nil {
		f.havocVal(resVal)
	}
}

func (f *frame) goStmt(ins *ssa.Go) {
	vc := f.vc
	name := calleeName(&ins.Call)
	if name == "" {
		if mc, ok := ins.Call.Value.(*ssa.MakeClosure); ok {
			name = FuncName(mc.Fn.(*ssa.Function))
		}
	}
	vc.assumptions["A-GO goroutine "+name+" spawned: verified separately, no interleaving semantics"] = true
	con := vc.specs.Contracts["go:"+name]
	{
		// `callsite go:<fn>: assert e` states what must hold where the goroutine is started
		var args []Term
		var argTypes []types.Type
		for _, a := range ins.Call.Args {
			args = append(args, f.val(a))
			argTypes = append(argTypes, a.Type())
		}
		callee := ins.Call.StaticCallee()
		if mc, ok := ins.Call.Value.(*ssa.MakeClosure); ok {
			callee = mc.Fn.(*ssa.Function)
		}
		f.callsiteAsserts("go:"+name, callee, &ins.Call, args, argTypes, ins.Pos())
	}
	if con != nil {
		var args []Term
		var argTypes []types.Type
		for _, a := range ins.Call.Args {
			args = append(args, f.val(a))
			argTypes = append(argTypes, a.Type())
		}
		sig := types.NewSignatureType(nil, nil, nil, ins.Call.Signature().Params(), types.NewTuple(), false)
		callee := ins.Call.StaticCallee()
		if mc, ok := ins.Call.Value.(*ssa.MakeClosure); ok {
			vc.curClosure = mc
			callee = mc.Fn.(*ssa.Function)
		}
		f.applyContract("go:"+name, con, callee, sig, args, argTypes, ins.Pos())
		vc.curClosure = nil
	}
}

func (f *frame) selectStmt(ins *ssa.Select) {
	vc := f.vc
	// nondeterministic choice among the cases (and default when non-blocking); a case whose channel
	// has a role contract (chan.recv:/chan.send:<owner>.<field>) applies it when chosen
	tup := ins.Type().(*types.Tuple)
	idx := vc.freshConst(f.prefix+"_selidx", vc.intSort(64))
	lo := int64(0)
	if !ins.Blocking {
		lo = -1
	}
	vc.assume(And(vc.le(vc.idxLit(lo), idx, true), vc.lt(idx, vc.idxLit(int64(len(ins.States))), true)))
	fields := []Term{idx, vc.freshConst(f.prefix+"_selok", SBool)}
	recvSlot := 2
	for i, st := range ins.States {
		op := "send"
		if st.Dir == types.RecvOnly {
			op = "recv"
		}
		name := "chan." + op + ":" + f.funcValueName(st.Chan)
		con := vc.specs.Contracts[name]
		guard := Eq(idx, vc.idxLit(int64(i)))
		var recvVal Term
		if op == "recv" && recvSlot < tup.Len() {
			recvVal = vc.freshConst(f.prefix+"_selv", vc.info(tup.At(recvSlot).Type()).sort)
			vc.assume(vc.typeInv(recvVal, tup.At(recvSlot).Type()))
			f.assumeAllocated(recvVal, tup.At(recvSlot).Type(), f.cur)
		}
		if con != nil {
			vc.noteCallee(name, con)
			c2 := *con
			if c2.Params == nil {
				c2.Params = []string{"ch", "v"}
			}
			args := []Term{f.val(st.Chan)}
			argTypes := []types.Type{st.Chan.Type()}
			if st.Send != nil {
				args = append(args, f.val(st.Send))
				argTypes = append(argTypes, st.Send.Type())
			}
			var results *types.Tuple
			if op == "recv" && recvSlot < tup.Len() {
				results = types.NewTuple(types.NewVar(token.NoPos, nil, "v", tup.At(recvSlot).Type()))
			}
			sig := types.NewSignatureType(nil, nil, nil, types.NewTuple(), results, false)
			saveReach, saveSt := f.reach, f.cur.clone()
			f.reach = vc.define(f.prefix+"_r", And(f.reach, guard))
			r := f.applyContract(name, &c2, nil, sig, args, argTypes, ins.Pos())
			for k, v := range f.cur {
				o := saveSt.get(vc, k)
				if o.S != v.S {
					f.cur[k] = vc.define(stateSym(k), Ite(guard, v, o))
				}
			}
			f.reach = saveReach
			if results != nil && r.S != "" {
				recvVal = Ite(guard, r, recvVal)
			}
		} else {
			vc.assumptions["A-CH select case "+name+" in "+FuncName(f.fn)+": no role contract, treated as an event without effect"] = true
		}
		if op == "recv" && recvSlot < tup.Len() {
			fields = append(fields, recvVal)
			recvSlot++
		}
	}
	for len(fields) < tup.Len() {
		i := len(fields)
		v := vc.freshConst(f.prefix+"_selv", vc.info(tup.At(i).Type()).sort)
		fields = append(fields, v)
	}
	f.setVal(ins, vc.mkTuple(tup, fields))
	vc.assumptions["A-CH select in "+FuncName(f.fn)+": nondeterministic choice among its cases (no buffering or fairness semantics)"] = true
	f.selects[ins] = true
}

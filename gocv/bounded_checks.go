package main

import (
	"fmt"
	"time"
)

// Registered bounded stand-ins (DESIGN §2.8). Each runs the real code through an overlay test.

func init() {
	boundedChecks["C02"] = append(boundedChecks["C02"], &BoundedCheck{Name: "C02/resolver", Run: func(out *propOutcome) *BoundedResult {
		depth := 4
		if out.Tier == "thorough" {
			depth = 5
		}
		r := &BoundedResult{Name: "C02/resolver",
			Bound:  fmt.Sprintf("every path of 1..%d components over {a,b,c,f,g,h,lb,la,lf,lup,l2,dangling,new,'.','..',''} on a fixed tree with relative, absolute, upward, chained and dangling symlinks; absolute and relative to 3 bases; tracee = the test process itself", depth),
			Oracle: "the kernel: open(O_PATH)+readlink(/proc/self/fd/N) for following calls; resolved parent + last component for calls that do not follow the last component",
			Exhaustive: true,
			Assumptions: []string{"resolveTraceePath (contract vocabulary rres/kres) agrees with the kernel only as far as this bounded comparison shows", "/proc/<pid>/root of the test process is /"}}
		t0 := time.Now()
		o, err := runOverlayTest("runner/ptrace", map[string]string{"bounded_resolver_test.go": "zz_gocv_bounded_resolver_test.go"}, "TestGocvBoundedResolver", 10*time.Minute, []string{fmt.Sprintf("GOCV_DEPTH=%d", depth)})
		r.Seconds = time.Since(t0).Seconds()
		parseHarnessOutput(o, r)
		if r.Evaluations == 0 {
			r.Error = "harness produced no evaluations: " + firstLines(o, 12)
			if err != nil {
				r.Error += " (" + err.Error() + ")"
			}
		}
		return r
	}})
	boundedChecks["C18"] = append(boundedChecks["C18"], &BoundedCheck{Name: "C18/fileset", Run: func(out *propOutcome) *BoundedResult {
		depth := 4
		if out.Tier == "thorough" {
			depth = 6
		}
		r := &BoundedResult{Name: "C18/fileset",
			Bound:      fmt.Sprintf("every cleaned absolute path over components {a,b} up to %d levels, plus \"\" and \"/\", against every set of one or two entries from {d, d/, d/*} for every directory d up to depth 3", depth),
			Oracle:     "the documented cover relation (exact entry; d/ covers d and everything beneath; d/* covers the direct children of d only), written independently of the matcher",
			Exhaustive: true,
			Assumptions: []string{"IsInSetSmart (contract vocabulary inset/cov) agrees with the documented cover relation only as far as this bounded comparison shows"}}
		t0 := time.Now()
		o, err := runOverlayTest("runner/ptrace/filehandler", map[string]string{"bounded_fileset_test.go": "zz_gocv_bounded_fileset_test.go"}, "TestGocvBoundedFileSet", 10*time.Minute, []string{fmt.Sprintf("GOCV_DEPTH=%d", depth)})
		r.Seconds = time.Since(t0).Seconds()
		parseHarnessOutput(o, r)
		if r.Evaluations == 0 {
			r.Error = "harness produced no evaluations: " + firstLines(o, 12)
			if err != nil {
				r.Error += " (" + err.Error() + ")"
			}
		}
		return r
	}})
	boundedChecks["C01"] = append(boundedChecks["C01"], &BoundedCheck{Name: "C01/cbpf", Run: func(out *propOutcome) *BoundedResult {
		nr := 460
		if out.Tier == "thorough" {
			nr = 4096
		}
		r := &BoundedResult{Name: "C01/cbpf",
			Bound:      fmt.Sprintf("35 policies (7 default actions incl. unset and unknown x 5 allow/trace list shapes) x 4 architecture tags x syscall numbers 0..%d, their x32 aliases and 32-bit edge values; argument words zero", nr),
			Oracle:     "an independent classic-BPF interpreter over seccomp_data, syscall numbers from the Go standard library's table; expected verdicts written from the property statement",
			Exhaustive: true,
			Assumptions: []string{"go-seccomp-bpf Policy.Assemble and x/net/bpf.Assemble (dependencies, assumed in the contracts) produce the declared filter only as far as this bounded comparison shows", "the kernel executes cBPF as the interpreter does"}}
		t0 := time.Now()
		o, err := runOverlayTest("pkg/seccomp/libseccomp", map[string]string{"bounded_cbpf_test.go": "zz_gocv_bounded_cbpf_test.go"}, "TestGocvBoundedCBPF", 10*time.Minute, []string{fmt.Sprintf("GOCV_NRMAX=%d", nr)})
		r.Seconds = time.Since(t0).Seconds()
		parseHarnessOutput(o, r)
		if r.Evaluations == 0 {
			r.Error = "harness produced no evaluations: " + firstLines(o, 12)
			if err != nil {
				r.Error += " (" + err.Error() + ")"
			}
		}
		return r
	}})
	boundedChecks["C08"] = append(boundedChecks["C08"], &BoundedCheck{Name: "C08/rlimit", Run: func(out *propOutcome) *BoundedResult {
		r := &BoundedResult{Name: "C08/rlimit",
			Bound:      "every combination of the seven numeric fields over {0, 1, 7, 2^63, 2^64-1} and both values of DisableCore (156250 records); the function branches only on field > 0 and CPUHard < CPU",
			Oracle:     "an independently written table: one entry per non-zero resource in the order CPU, DATA, FSIZE, STACK, AS, NOFILE, CORE with the configured soft/hard values",
			Exhaustive: true,
			Assumptions: []string{"positions and values of the DATA..NOFILE entries of PrepareRLimit are bounded-checked only (the deductive contract states length, CPU and CORE entries)"}}
		t0 := time.Now()
		o, err := runOverlayTest("pkg/rlimit", map[string]string{"bounded_rlimit_test.go": "zz_gocv_bounded_rlimit_test.go"}, "TestGocvBoundedRLimit", 10*time.Minute, nil)
		r.Seconds = time.Since(t0).Seconds()
		parseHarnessOutput(o, r)
		if r.Evaluations == 0 {
			r.Error = "harness produced no evaluations: " + firstLines(o, 12)
			if err != nil {
				r.Error += " (" + err.Error() + ")"
			}
		}
		return r
	}})
}

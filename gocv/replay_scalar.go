package main

import (
	"bytes"
	"context"
	"encoding/json"
	"fmt"
	"go/types"
	"math/big"
	"os"
	"os/exec"
	"path/filepath"
	"regexp"
	"strconv"
	"strings"
	"time"
)

// Replay harness "scalar": a failed postcondition of a function whose parameters, receiver and
// results are all scalars (integers, booleans, named scalar types). The solver's values for the
// parameters are turned into a Go test that calls the REAL function (injected with -overlay, nothing
// is written to the repository) and evaluates the postcondition, translated to Go, on the real
// result. The violation counts as replayed only if the real code falsifies the postcondition (or panics).

const modulePrefix = "github.com/criyle/go-sandbox/"

func init() {
	replayHarnesses = append(replayHarnesses, &replayHarness{Name: "scalar", Match: scalarMatch, Run: scalarRun})
}

func isScalar(t types.Type) bool {
	b, ok := t.Underlying().(*types.Basic)
	if !ok {
		return false
	}
	return b.Info()&(types.IsInteger|types.IsBoolean) != 0 && b.Kind() != types.UnsafePointer
}

var postIdx = regexp.MustCompile(`^\[(\d+)\] `)

func scalarClause(vc *VC, ob *Obligation) *Clause {
	if vc.con == nil || ob.Kind != "post" {
		return nil
	}
	m := postIdx.FindStringSubmatch(ob.Text)
	if m == nil {
		return nil
	}
	k, _ := strconv.Atoi(m[1])
	if k >= len(vc.con.Ensures) {
		return nil
	}
	return &vc.con.Ensures[k]
}

func scalarMatch(vc *VC, ob *Obligation) bool {
	fn := vc.fn
	if fn == nil || fn.Pkg == nil || fn.Pkg.Pkg == nil || !strings.HasPrefix(fn.Pkg.Pkg.Path()+"/", modulePrefix) {
		return false
	}
	if len(fn.FreeVars) > 0 || scalarClause(vc, ob) == nil {
		return false
	}
	for _, p := range fn.Params {
		if !isScalar(p.Type()) || p.Name() == "_" || p.Name() == "" {
			return false
		}
	}
	res := fn.Signature.Results()
	if res.Len() == 0 {
		return false
	}
	for i := 0; i < res.Len(); i++ {
		if !isScalar(res.At(i).Type()) {
			return false
		}
	}
	return true
}

type goTr struct {
	vc      *VC
	pkgName string
	names   map[string]string // spec identifier -> Go expression
	depth   int
	inOld   bool // inside old(...): parameters name their entry copies (search harness)
}

var convNames = map[string]bool{"int": true, "int8": true, "int16": true, "int32": true, "int64": true, "uint": true, "uint8": true,
	"uint16": true, "uint32": true, "uint64": true, "uintptr": true, "byte": true, "bool": true}

func (g *goTr) tr(e SExpr) (string, error) {
	switch x := e.(type) {
	case *SLit:
		switch x.Kind {
		case "int", "bool", "char":
			return x.Val, nil
		}
		return "", fmt.Errorf("literal kind %s", x.Kind)
	case *SIdent:
		if v, ok := g.names[x.Name]; ok {
			return v, nil
		}
		return "", fmt.Errorf("identifier %s", x.Name)
	case *SSelect:
		if id, ok := x.X.(*SIdent); ok {
			if id.Name == "result" {
				if v, ok := g.names["result."+x.Sel]; ok {
					return v, nil
				}
			}
			if id.Name == g.pkgName { // a constant or variable of the function's own package
				return x.Sel, nil
			}
		}
		return "", fmt.Errorf("selector %s", x.String())
	case *SOld:
		return g.tr(x.X)
	case *SUnary:
		a, err := g.tr(x.X)
		if err != nil {
			return "", err
		}
		if x.Op == "!" || x.Op == "-" {
			return "(" + x.Op + a + ")", nil
		}
		return "", fmt.Errorf("unary %s", x.Op)
	case *SBinary:
		a, err := g.tr(x.X)
		if err != nil {
			return "", err
		}
		b, err := g.tr(x.Y)
		if err != nil {
			return "", err
		}
		switch x.Op {
		case "==>":
			return "(!(" + a + ") || (" + b + "))", nil
		case "<==>":
			return "((" + a + ") == (" + b + "))", nil
		case "&&", "||", "==", "!=", "<", "<=", ">", ">=", "+", "-", "*", "/", "%", "&", "|", "^", "<<", ">>":
			return "(" + a + " " + x.Op + " " + b + ")", nil
		}
		return "", fmt.Errorf("operator %s", x.Op)
	case *SIte:
		c, err := g.tr(x.C)
		if err != nil {
			return "", err
		}
		a, err := g.tr(x.A)
		if err != nil {
			return "", err
		}
		b, err := g.tr(x.B)
		if err != nil {
			return "", err
		}
		return "gocvIte(" + c + ", " + a + ", " + b + ")", nil
	case *SCall:
		if convNames[x.Fn] && len(x.Args) == 1 {
			a, err := g.tr(x.Args[0])
			if err != nil {
				return "", err
			}
			return x.Fn + "(" + a + ")", nil
		}
		if x.Fn == "ite" && len(x.Args) == 3 {
			return g.tr(&SIte{C: x.Args[0], A: x.Args[1], B: x.Args[2]})
		}
		if fn, ok := g.vc.specs.Fns[x.Fn]; ok && fn.Body != nil && !fn.Rec && len(fn.Reads) == 0 && len(fn.Params) == len(x.Args) && g.depth < 6 {
			// a defined specification function: a Go closure with the same body
			inner := &goTr{vc: g.vc, pkgName: g.pkgName, names: map[string]string{}, depth: g.depth + 1}
			var ps []string
			for _, p := range fn.Params {
				if !convNames[p.Type] {
					return "", fmt.Errorf("spec function %s: parameter type %s", x.Fn, p.Type)
				}
				inner.names[p.Name] = p.Name
				ps = append(ps, p.Name+" "+p.Type)
			}
			if !convNames[fn.Result] {
				return "", fmt.Errorf("spec function %s: result type %s", x.Fn, fn.Result)
			}
			body, err := inner.tr(fn.Body)
			if err != nil {
				return "", err
			}
			var as []string
			for i, a := range x.Args {
				s, err := g.tr(a)
				if err != nil {
					return "", err
				}
				as = append(as, fn.Params[i].Type+"("+s+")")
			}
			return "func(" + strings.Join(ps, ", ") + ") " + fn.Result + " { return " + fn.Result + "(" + body + ") }(" + strings.Join(as, ", ") + ")", nil
		}
		return "", fmt.Errorf("call %s", x.Fn)
	}
	return "", fmt.Errorf("expression %T", e)
}

// modelValue turns an SMT value (#x.., #b.., decimal, (- n), true/false) into a big integer or bool text.
func modelValue(v string) (string, bool) {
	v = strings.TrimSpace(v)
	switch {
	case v == "true" || v == "false":
		return v, true
	case strings.HasPrefix(v, "#x"):
		n, ok := new(big.Int).SetString(v[2:], 16)
		if !ok {
			return "", false
		}
		return n.String(), true
	case strings.HasPrefix(v, "#b"):
		n, ok := new(big.Int).SetString(v[2:], 2)
		if !ok {
			return "", false
		}
		return n.String(), true
	case strings.HasPrefix(v, "(- "):
		return "-" + strings.TrimSuffix(strings.TrimSpace(v[3:]), ")"), true
	}
	if _, ok := new(big.Int).SetString(v, 10); ok {
		return v, true
	}
	return "", false
}

func scalarRun(vc *VC, ob *Obligation, inputs map[string]string) (bool, map[string]any) {
	fn := vc.fn
	cl := scalarClause(vc, ob)
	detail := map[string]any{"harness": "scalar"}
	pkgPath := fn.Pkg.Pkg.Path()
	rel := strings.TrimPrefix(pkgPath+"/", modulePrefix)
	rel = strings.TrimSuffix(rel, "/")
	if rel == "" {
		rel = "."
	}
	g := &goTr{vc: vc, pkgName: fn.Pkg.Pkg.Name(), names: map[string]string{}}
	var b strings.Builder
	fmt.Fprintf(&b, "package %s\n\nimport (\n\t\"fmt\"\n\t\"testing\"\n)\n\n", fn.Pkg.Pkg.Name())
	b.WriteString("func gocvIte[T any](c bool, a, b T) T {\n\tif c {\n\t\treturn a\n\t}\n\treturn b\n}\n\n")
	b.WriteString("func TestGocvReplayScalar(t *testing.T) {\n")
	b.WriteString("\tdefer func() {\n\t\tif r := recover(); r != nil {\n\t\t\tfmt.Printf(\"GOCV-REPLAY panic=%v\\n\", r)\n\t\t}\n\t}()\n")
	qual := types.RelativeTo(fn.Pkg.Pkg)
	used := map[string]string{}
	var args []string
	recv := ""
	for i, p := range fn.Params {
		raw, ok := inputs["p_"+sanitize(p.Name())]
		val := "0"
		if ok {
			if v, ok2 := modelValue(raw); ok2 {
				val = v
			} else {
				detail["status"] = "model value of " + p.Name() + " not understood: " + raw
				return false, detail
			}
		}
		used[p.Name()] = val
		ty := types.TypeString(p.Type(), qual)
		ub := p.Type().Underlying().(*types.Basic)
		name := "in_" + sanitize(p.Name())
		switch {
		case ub.Info()&types.IsBoolean != 0:
			if val != "true" && val != "false" {
				val = "false"
			}
			fmt.Fprintf(&b, "\tvar %s %s = %s(%s)\n", name, ty, ty, val)
		case strings.HasPrefix(val, "-"):
			fmt.Fprintf(&b, "\tvar raw_%s int64 = %s\n\tvar %s %s = %s(raw_%s)\n", name, val, name, ty, ty, name)
		default:
			fmt.Fprintf(&b, "\tvar raw_%s uint64 = %s\n\tvar %s %s = %s(raw_%s)\n", name, val, name, ty, ty, name)
		}
		g.names[p.Name()] = name
		if fn.Signature.Recv() != nil && i == 0 {
			recv = name
		} else {
			args = append(args, name)
		}
	}
	res := fn.Signature.Results()
	var rs []string
	for i := 0; i < res.Len(); i++ {
		r := fmt.Sprintf("r%d", i)
		rs = append(rs, r)
		g.names[fmt.Sprintf("result.%d", i)] = r
		if n := res.At(i).Name(); n != "" && n != "_" {
			g.names[n] = r
		}
	}
	if res.Len() == 1 {
		g.names["result"] = "r0"
	}
	post, err := g.tr(cl.Expr)
	if err != nil {
		detail["status"] = "postcondition not translatable to Go: " + err.Error()
		return false, detail
	}
	call := fn.Name() + "(" + strings.Join(args, ", ") + ")"
	if recv != "" {
		call = recv + "." + call
	}
	fmt.Fprintf(&b, "\t%s := %s\n", strings.Join(rs, ", "), call)
	fmt.Fprintf(&b, "\tholds := %s\n", post)
	fmt.Fprintf(&b, "\tfmt.Printf(\"GOCV-REPLAY holds=%%v results=%%v\\n\", holds, []any{%s})\n}\n", strings.Join(rs, ", "))
	src := b.String()
	detail["inputs"] = used
	detail["postcondition"] = cl.Text
	detail["test_source"] = src
	out, runErr := runOverlaySource(rel, src, "zz_gocv_replay_scalar_test.go", "TestGocvReplayScalar", 90*time.Second)
	detail["output"] = truncate(out, 4000)
	switch {
	case strings.Contains(out, "GOCV-REPLAY holds=false"):
		detail["status"] = "confirmed: the real function falsifies the postcondition on these inputs"
		return true, detail
	case strings.Contains(out, "GOCV-REPLAY panic="):
		detail["status"] = "confirmed: the real function panics on these inputs"
		return true, detail
	case strings.Contains(out, "GOCV-REPLAY holds=true"):
		detail["status"] = "not confirmed: the real function satisfies the postcondition on the solver's inputs (the model may rely on an abstraction)"
		return false, detail
	}
	detail["status"] = "replay did not run"
	if runErr != nil {
		detail["status"] = "replay did not run: " + runErr.Error()
	}
	return false, detail
}

// runOverlaySource injects one generated test file into a repository package and runs it.
func runOverlaySource(pkg, source, target, runPattern string, timeout time.Duration) (string, error) {
	dir := scratch()
	srcFile := filepath.Join(dir, fmt.Sprintf("replay_%d_test.go", time.Now().UnixNano()))
	if err := os.WriteFile(srcFile, []byte(source), 0o644); err != nil {
		return "", err
	}
	defer os.Remove(srcFile)
	ov := map[string]map[string]string{"Replace": {filepath.Join(repoDir(), pkg, target): srcFile}}
	data, _ := json.Marshal(ov)
	ovFile := srcFile + ".ov.json"
	if err := os.WriteFile(ovFile, data, 0o644); err != nil {
		return "", err
	}
	defer os.Remove(ovFile)
	ctx, cancel := context.WithTimeout(context.Background(), timeout+30*time.Second)
	defer cancel()
	cmd := exec.CommandContext(ctx, "go", "test", "-overlay", ovFile, "-vet=off", "-count=1",
		"-timeout", fmt.Sprintf("%ds", int(timeout.Seconds())), "-run", runPattern, "-v", "./"+pkg)
	cmd.Dir = repoDir()
	cmd.Env = append(os.Environ(), "GOFLAGS=-mod=mod", "GOPROXY=off", "GOSUMDB=off", "GOTOOLCHAIN=local",
		"PATH=/opt/veriftools/go1.26.8/bin:"+os.Getenv("PATH"))
	var out bytes.Buffer
	cmd.Stdout = &out
	cmd.Stderr = &out
	err := cmd.Run()
	return out.String(), err
}

package main

import (
	"fmt"
	"go/constant"
	"go/types"
	"math/big"
	"strings"
)

// SpecTy is the type of a specification value: a Go type, or a ghost (value) map.
type SpecTy struct {
	Go         types.Type
	MapK, MapV *SpecTy
	Raw        Sort // a memory array as a value (only in lemmas/axioms about heap-dependent spec functions)
}

func (vc *VC) specSort(t *SpecTy) Sort {
	if t.Raw != "" {
		return t.Raw
	}
	if t.MapK != nil {
		return ArrSort(vc.specSort(t.MapK), vc.specSort(t.MapV))
	}
	return vc.info(t.Go).sort
}

func goTy(t types.Type) *SpecTy { return &SpecTy{Go: t} }

// TV is a typed specification value.
type TV struct {
	T   Term
	Ty  *SpecTy
	Lit *big.Int // untyped integer literal (T is unset until materialised)
	Nil bool     // untyped nil
}

type specError string

func specFail(f string, a ...any) { panic(specError(fmt.Sprintf(f, a...))) }

// Env is the evaluation context of a specification expression.
type Env struct {
	vc     *VC
	lookup func(name string) (TV, bool) // program variables (params, phis, locals)
	bound  map[string]TV
	state  State
	old    State
	result []TV // return values (nil outside postconditions)
	pkg    *types.Package
	oldLookup func(name string) (TV, bool)
	// derefs: names that denote the contents of a cell (captured variables of a closure at a call
	// site): read from whatever state the expression is evaluated in
	derefs map[string]derefBinding
	// callNames: callee parameter names bound at a call site; old(x) refers to the caller's own x
	callNames []string
}

type derefBinding struct {
	cell Term
	elem types.Type
}

func (e *Env) withState(st State) *Env {
	c := *e
	c.state = st
	return &c
}

func (e *Env) bind(name string, v TV) *Env {
	c := *e
	c.bound = map[string]TV{}
	for k, x := range e.bound {
		c.bound[k] = x
	}
	c.bound[name] = v
	return &c
}

// parseSpecType resolves a type name used in specs.
func (vc *VC) parseSpecType(s string, pkg *types.Package) *SpecTy {
	s = strings.TrimSpace(s)
	if strings.HasPrefix(s, "map[") {
		depth := 0
		for i := 3; i < len(s); i++ {
			if s[i] == '[' {
				depth++
			} else if s[i] == ']' {
				depth--
				if depth == 0 {
					return &SpecTy{MapK: vc.parseSpecType(s[4:i], pkg), MapV: vc.parseSpecType(s[i+1:], pkg)}
				}
			}
		}
		specFail("bad map type %q", s)
	}
	if strings.HasPrefix(s, "[]") {
		return goTy(types.NewSlice(vc.parseSpecType(s[2:], pkg).Go))
	}
	if strings.HasPrefix(s, "*") {
		return goTy(types.NewPointer(vc.parseSpecType(s[1:], pkg).Go))
	}
	if strings.HasPrefix(s, "Mem_") {
		return &SpecTy{Raw: vc.memSortByName(s)}
	}
	switch s {
	case "Ref":
		return goTy(types.Typ[types.UnsafePointer])
	case "error":
		return goTy(types.Universe.Lookup("error").Type())
	case "byte":
		return goTy(types.Typ[types.Uint8])
	}
	if o := types.Universe.Lookup(s); o != nil {
		if tn, ok := o.(*types.TypeName); ok {
			return goTy(tn.Type())
		}
	}
	// qualified or package-local named type
	if i := strings.LastIndex(s, "."); i >= 0 {
		if p := vc.findPackage(s[:i], pkg); p != nil {
			if o := p.Scope().Lookup(s[i+1:]); o != nil {
				if tn, ok := o.(*types.TypeName); ok {
					return goTy(tn.Type())
				}
			}
		}
	} else if pkg != nil {
		if o := pkg.Scope().Lookup(s); o != nil {
			if tn, ok := o.(*types.TypeName); ok {
				return goTy(tn.Type())
			}
		}
	}
	specFail("unknown type %q", s)
	return nil
}

// findPackage resolves a package name or path as seen from pkg.
func (vc *VC) findPackage(name string, from *types.Package) *types.Package {
	if from != nil {
		if from.Name() == name || from.Path() == name {
			return from
		}
		for _, imp := range from.Imports() {
			if imp.Name() == name || imp.Path() == name {
				return imp
			}
		}
	}
	var cand *types.Package
	for _, p := range vc.prog.SSA.AllPackages() {
		if p.Pkg.Path() == name || shortPkg(p.Pkg.Path()) == name {
			return p.Pkg
		}
		if p.Pkg.Name() == name {
			// several packages may share a name (unix): prefer the non-internal one
			if cand == nil || strings.Contains(cand.Path(), "internal/") {
				cand = p.Pkg
			}
		}
	}
	return cand
}

func (vc *VC) evalSpec(x SExpr, env *Env) (tv TV) {
	switch x := x.(type) {
	case *SLit:
		switch x.Kind {
		case "int":
			v, ok := new(big.Int).SetString(x.Val, 0)
			if !ok {
				specFail("bad integer %q", x.Val)
			}
			return TV{Lit: v}
		case "bool":
			if x.Val == "true" {
				return TV{T: TTrue, Ty: goTy(types.Typ[types.Bool])}
			}
			return TV{T: TFalse, Ty: goTy(types.Typ[types.Bool])}
		case "string":
			return TV{T: vc.strLitTerm(x.Val), Ty: goTy(types.Typ[types.String])}
		case "nil":
			return TV{Nil: true}
		}
	case *SIdent:
		return vc.evalIdent(x.Name, env)
	case *SOld:
		if env.old == nil {
			specFail("old() not available here")
		}
		c := env.withState(env.old)
		if env.oldLookup != nil {
			c.lookup = env.oldLookup
		}
		if len(env.callNames) > 0 {
			// in a call-site assertion the callee's parameter names shadow the caller's variables;
			// under old() the caller's entry values are meant
			b2 := map[string]TV{}
			for k, v := range c.bound {
				b2[k] = v
			}
			for _, n := range env.callNames {
				delete(b2, n)
			}
			c.bound = b2
		}
		return vc.evalSpec(x.X, c)
	case *SIte:
		c := vc.evalBool(x.C, env)
		a, b := vc.evalSpec(x.A, env), vc.evalSpec(x.B, env)
		a, b = vc.unify(a, b)
		return TV{T: Ite(c, a.T, b.T), Ty: a.Ty}
	case *SQuant:
		e2 := env
		var vars []Term
		var ranges []Term
		for _, v := range x.Vars {
			ty := vc.parseSpecType(v.Type, env.pkg)
			name := fmt.Sprintf("q_%s_%d", sanitize(v.Name), vc.nfresh)
			vc.nfresh++
			t := Term{name, vc.specSort(ty)}
			vars = append(vars, t)
			e2 = e2.bind(v.Name, TV{T: t, Ty: ty})
			if ty.Go != nil && ty.Raw == "" {
				// strings: no length guard on a bound variable (it would need a length fact at every
				// instantiation and offers str.len_ as a trigger); abstract Str values outside the
				// length range stand for no real string
				if b, ok := ty.Go.Underlying().(*types.Basic); !(ok && b.Kind() == types.String) {
					ranges = append(ranges, vc.typeInv(t, ty.Go))
				}
			}
		}
		vc.inQuant++
		body := func() Term {
			defer func() { vc.inQuant-- }()
			return vc.evalBool(x.Body, e2)
		}()
		if x.Forall {
			return TV{T: Forall(vars, withPatterns(Implies(And(ranges...), body), vars)), Ty: goTy(types.Typ[types.Bool])}
		}
		return TV{T: Exists(vars, withPatterns(And(append(ranges, body)...), vars)), Ty: goTy(types.Typ[types.Bool])}
	case *SUnary:
		switch x.Op {
		case "!":
			return TV{T: Not(vc.evalBool(x.X, env)), Ty: goTy(types.Typ[types.Bool])}
		case "-":
			v := vc.evalSpec(x.X, env)
			if v.Lit != nil {
				return TV{Lit: new(big.Int).Neg(v.Lit)}
			}
			ti := vc.info(v.Ty.Go)
			if vc.mode == ModeBV {
				return TV{T: App(ti.sort, "bvneg", v.T), Ty: v.Ty}
			}
			return TV{T: App(SInt, "-", v.T), Ty: v.Ty}
		case "^":
			v := vc.evalSpec(x.X, env)
			if v.Lit != nil {
				return TV{Lit: new(big.Int).Not(v.Lit)}
			}
			ti := vc.info(v.Ty.Go)
			if vc.mode == ModeBV {
				return TV{T: App(ti.sort, "bvnot", v.T), Ty: v.Ty}
			}
			specFail("^ not supported in int mode")
		}
	case *SBinary:
		return vc.evalBinary(x, env)
	case *SSelect:
		return vc.evalSelect(x, env)
	case *SIndex:
		base := vc.evalSpec(x.X, env)
		if base.Ty == nil {
			specFail("cannot index %s", x.X)
		}
		if base.Ty.MapK != nil {
			k := vc.materialize(vc.evalSpec(x.I, env), base.Ty.MapK)
			return TV{T: Select(base.T, k.T, vc.specSort(base.Ty.MapV)), Ty: base.Ty.MapV}
		}
		intTy := goTy(types.Typ[types.Int])
		switch u := base.Ty.Go.Underlying().(type) {
		case *types.Slice:
			i := vc.materialize(vc.evalSpec(x.I, env), intTy)
			ref := vc.elemAt(vc.sliceArr(base.T), vc.sliceOff(base.T), vc.toIdx(i))
			return TV{T: vc.load(env.state, ref, u.Elem()), Ty: goTy(u.Elem())}
		case *types.Array:
			i := vc.materialize(vc.evalSpec(x.I, env), intTy)
			return TV{T: Select(base.T, vc.toIdx(i), vc.info(u.Elem()).sort), Ty: goTy(u.Elem())}
		case *types.Pointer:
			if a, ok := u.Elem().Underlying().(*types.Array); ok {
				i := vc.materialize(vc.evalSpec(x.I, env), intTy)
				return TV{T: vc.load(env.state, vc.elem(base.T, vc.toIdx(i)), a.Elem()), Ty: goTy(a.Elem())}
			}
		case *types.Basic:
			if u.Info()&types.IsString != 0 {
				i := vc.materialize(vc.evalSpec(x.I, env), intTy)
				return TV{T: App(vc.intSort(8), "str.at_", base.T, vc.toIdx(i)), Ty: goTy(types.Typ[types.Uint8])}
			}
		case *types.Map:
			k := vc.materialize(vc.evalSpec(x.I, env), goTy(u.Key()))
			return TV{T: vc.mapLookup(env.state, base.T, k.T, u), Ty: goTy(u.Elem())}
		}
		specFail("cannot index value of type %s", base.Ty.Go)
	case *SSliceX:
		base := vc.evalSpec(x.X, env)
		intTy := goTy(types.Typ[types.Int])
		if _, ok := base.Ty.Go.Underlying().(*types.Slice); !ok {
			specFail("slicing of non-slice in spec")
		}
		lo := vc.idxLit(0)
		if x.Lo != nil {
			lo = vc.toIdx(vc.materialize(vc.evalSpec(x.Lo, env), intTy))
		}
		hi := vc.sliceLen(base.T)
		if x.Hi != nil {
			hi = vc.toIdx(vc.materialize(vc.evalSpec(x.Hi, env), intTy))
		}
		return TV{T: vc.mkSlice(vc.sliceArr(base.T), vc.add(vc.sliceOff(base.T), lo), vc.sub(hi, lo), vc.sub(vc.sliceCap(base.T), lo)), Ty: base.Ty}
	case *SUpdate:
		base := vc.evalSpec(x.X, env)
		if base.Ty == nil || base.Ty.MapK == nil {
			specFail("update of non-ghost-map %s", x.X)
		}
		k := vc.materialize(vc.evalSpec(x.K, env), base.Ty.MapK)
		v := vc.materialize(vc.evalSpec(x.V, env), base.Ty.MapV)
		return TV{T: Store(base.T, k.T, v.T), Ty: base.Ty}
	case *SCall:
		return vc.evalCall(x, env)
	}
	specFail("unsupported spec expression %s", x)
	return
}

func (vc *VC) toIdx(v TV) Term {
	ti := vc.info(v.Ty.Go)
	if ti.kind != "int" {
		specFail("index is not an integer")
	}
	return vc.convInt(v.T, ti.bits, ti.signed, 64, true)
}

func (vc *VC) evalBool(x SExpr, env *Env) Term {
	v := vc.evalSpec(x, env)
	if v.Ty == nil || v.T.Sort != SBool {
		specFail("expected boolean: %s", x)
	}
	return v.T
}

// materialize gives an untyped literal (or nil) the type want.
func (vc *VC) materialize(v TV, want *SpecTy) TV {
	if v.Lit != nil {
		if want == nil || want.Go == nil {
			want = goTy(types.Typ[types.Int])
		}
		ti := vc.info(want.Go)
		if ti.kind != "int" {
			specFail("integer literal used as %s", want.Go)
		}
		return TV{T: vc.intLit(v.Lit, ti.bits), Ty: want}
	}
	if v.Nil {
		if want == nil || want.Go == nil {
			specFail("untyped nil")
		}
		return TV{T: vc.zero(want.Go), Ty: want}
	}
	return v
}

func (vc *VC) unify(a, b TV) (TV, TV) {
	switch {
	case (a.Lit != nil || a.Nil) && (b.Lit != nil || b.Nil):
		return vc.materialize(a, nil), vc.materialize(b, nil)
	case a.Lit != nil || a.Nil:
		return vc.materialize(a, b.Ty), b
	case b.Lit != nil || b.Nil:
		return a, vc.materialize(b, a.Ty)
	}
	if a.T.Sort != b.T.Sort {
		specFail("operands have different representations: %s vs %s (%s / %s)", a.T.Sort, b.T.Sort, a.T.S, b.T.S)
	}
	return a, b
}

func (vc *VC) evalBinary(x *SBinary, env *Env) TV {
	boolTy := goTy(types.Typ[types.Bool])
	switch x.Op {
	case "&&":
		return TV{T: And(vc.evalBool(x.X, env), vc.evalBool(x.Y, env)), Ty: boolTy}
	case "||":
		return TV{T: Or(vc.evalBool(x.X, env), vc.evalBool(x.Y, env)), Ty: boolTy}
	case "==>":
		return TV{T: Implies(vc.evalBool(x.X, env), vc.evalBool(x.Y, env)), Ty: boolTy}
	case "<==>":
		return TV{T: Eq(vc.evalBool(x.X, env), vc.evalBool(x.Y, env)), Ty: boolTy}
	}
	a, b := vc.evalSpec(x.X, env), vc.evalSpec(x.Y, env)
	if x.Op == "+" && a.T.Sort == SStr && b.T.Sort == SStr {
		// string concatenation: the same uninterpreted term the code's + produces
		return TV{T: App(SStr, "str.concat_", a.T, b.T), Ty: goTy(types.Typ[types.String])}
	}
	if a.Lit != nil && b.Lit != nil {
		// constant folding
		r := new(big.Int)
		switch x.Op {
		case "+":
			return TV{Lit: r.Add(a.Lit, b.Lit)}
		case "-":
			return TV{Lit: r.Sub(a.Lit, b.Lit)}
		case "*":
			return TV{Lit: r.Mul(a.Lit, b.Lit)}
		case "/":
			return TV{Lit: r.Quo(a.Lit, b.Lit)}
		case "%":
			return TV{Lit: r.Rem(a.Lit, b.Lit)}
		case "<<":
			return TV{Lit: r.Lsh(a.Lit, uint(b.Lit.Uint64()))}
		case ">>":
			return TV{Lit: r.Rsh(a.Lit, uint(b.Lit.Uint64()))}
		case "|":
			return TV{Lit: r.Or(a.Lit, b.Lit)}
		case "&":
			return TV{Lit: r.And(a.Lit, b.Lit)}
		case "^":
			return TV{Lit: r.Xor(a.Lit, b.Lit)}
		case "&^":
			return TV{Lit: r.AndNot(a.Lit, b.Lit)}
		}
	}
	if x.Op == "<<" || x.Op == ">>" {
		a = vc.materialize(a, nil)
		ti := vc.info(a.Ty.Go)
		var cnt Term
		if b.Lit != nil {
			cnt = vc.intLit(b.Lit, ti.bits)
		} else {
			bi := vc.info(b.Ty.Go)
			cnt = vc.convInt(b.T, bi.bits, bi.signed, ti.bits, false)
		}
		return TV{T: vc.shift(x.Op, a.T, cnt, ti), Ty: a.Ty}
	}
	a, b = vc.unify(a, b)
	switch x.Op {
	case "==":
		return TV{T: vc.eqVal(a.T, b.T), Ty: boolTy}
	case "!=":
		return TV{T: Not(vc.eqVal(a.T, b.T)), Ty: boolTy}
	}
	if a.Ty.Go == nil {
		specFail("arithmetic on ghost map")
	}
	ti := vc.info(a.Ty.Go)
	if ti.kind != "int" {
		specFail("operator %s on non-integer %s", x.Op, a.Ty.Go)
	}
	switch x.Op {
	case "<", "<=", ">", ">=":
		return TV{T: vc.cmp(x.Op, a.T, b.T, ti.signed), Ty: boolTy}
	}
	return TV{T: vc.arith(x.Op, a.T, b.T, ti), Ty: a.Ty}
}

// arith encodes a Go arithmetic operator on same-typed integers (no obligations;
// callers add overflow/div0 obligations where they apply).
func (vc *VC) arith(op string, a, b Term, ti *typeInfo) Term {
	if vc.mode == ModeBV {
		var f string
		switch op {
		case "+":
			f = "bvadd"
		case "-":
			f = "bvsub"
		case "*":
			f = "bvmul"
		case "/":
			f = "bvudiv"
			if ti.signed {
				f = "bvsdiv"
			}
		case "%":
			f = "bvurem"
			if ti.signed {
				f = "bvsrem"
			}
		case "&":
			f = "bvand"
		case "|":
			f = "bvor"
		case "^":
			f = "bvxor"
		case "&^":
			return App(ti.sort, "bvand", a, App(ti.sort, "bvnot", b))
		default:
			specFail("operator %s", op)
		}
		return App(ti.sort, f, a, b)
	}
	switch op {
	case "+", "-", "*":
		return App(SInt, op, a, b)
	case "/":
		// Go truncates toward zero
		return Ite(App(SBool, ">=", a, IntLit(0)), App(SInt, "div", a, b), App(SInt, "-", App(SInt, "div", App(SInt, "-", a), b)))
	case "%":
		return Ite(App(SBool, ">=", a, IntLit(0)), App(SInt, "mod", a, b), App(SInt, "-", App(SInt, "mod", App(SInt, "-", a), b)))
	case "&", "|", "^", "&^":
		// constant operands fold
		if av, ok := intLiteral(a); ok {
			if bv, ok := intLiteral(b); ok && av.Sign() >= 0 && bv.Sign() >= 0 {
				r := new(big.Int)
				switch op {
				case "&":
					r.And(av, bv)
				case "|":
					r.Or(av, bv)
				case "^":
					r.Xor(av, bv)
				case "&^":
					r.AndNot(av, bv)
				}
				return Term{r.String(), SInt}
			}
		}
		// bit operations are uninterpreted in int mode (sound: only functional consistency is known)
		name := map[string]string{"&": "bitand_", "|": "bitor_", "^": "bitxor_", "&^": "bitandnot_"}[op]
		vc.needBitFns = true
		return App(SInt, name, a, b)
	}
	specFail("operator %s", op)
	return Term{}
}

func (vc *VC) shift(op string, a, cnt Term, ti *typeInfo) Term {
	if vc.mode == ModeBV {
		if op == "<<" {
			return App(ti.sort, "bvshl", a, cnt)
		}
		if ti.signed {
			return App(ti.sort, "bvashr", a, cnt)
		}
		return App(ti.sort, "bvlshr", a, cnt)
	}
	vc.needBitFns = true
	if op == "<<" {
		return App(SInt, "shl_", a, cnt)
	}
	return App(SInt, "shr_", a, cnt)
}

func (vc *VC) evalIdent(name string, env *Env) TV {
	if v, ok := env.bound[name]; ok {
		return v
	}
	if d, ok := env.derefs[name]; ok && !(name == "result" && len(env.result) > 0) {
		return TV{T: vc.load(env.state, d.cell, d.elem), Ty: goTy(d.elem)}
	}
	if name == "result" && len(env.result) > 0 {
		if env.result == nil {
			specFail("result not available here")
		}
		if len(env.result) == 1 {
			return env.result[0]
		}
		specFail("result is a tuple; use result.N")
	}
	if env.lookup != nil {
		if v, ok := env.lookup(name); ok {
			return v
		}
	}
	if g := vc.ghostVar(name); g != nil {
		return TV{T: env.state.get(vc, g.stateName), Ty: g.ty}
	}
	if v, ok := vc.pkgLevel(env.pkg, name, env); ok {
		return v
	}
	specFail("unknown name %q", name)
	return TV{}
}

// pkgLevel resolves a package-level constant or variable.
func (vc *VC) pkgLevel(pkg *types.Package, name string, env *Env) (TV, bool) {
	if pkg == nil {
		return TV{}, false
	}
	o := pkg.Scope().Lookup(name)
	if o == nil {
		return TV{}, false
	}
	switch o := o.(type) {
	case *types.Const:
		return vc.constTV(o.Val(), o.Type()), true
	case *types.Var:
		if sp := vc.prog.SSA.Package(pkg); sp != nil {
			if g, ok := sp.Members[name].(interface{ Type() types.Type }); ok {
				_ = g
			}
			if gv := sp.Var(name); gv != nil {
				ref := vc.globalRef(gv)
				if vc.prog.Frozen[gv] && !isInitFunc(vc.fn) {
					vc.usedGlobals[gv] = true
					return TV{T: vc.load(State{}, ref, o.Type()), Ty: goTy(o.Type())}, true
				}
				return TV{T: vc.load(env.state, ref, o.Type()), Ty: goTy(o.Type())}, true
			}
		}
	}
	return TV{}, false
}

func (vc *VC) constTV(val constant.Value, t types.Type) TV {
	switch val.Kind() {
	case constant.Bool:
		if constant.BoolVal(val) {
			return TV{T: TTrue, Ty: goTy(types.Typ[types.Bool])}
		}
		return TV{T: TFalse, Ty: goTy(types.Typ[types.Bool])}
	case constant.String:
		return TV{T: vc.strLitTerm(constant.StringVal(val)), Ty: goTy(types.Typ[types.String])}
	case constant.Int:
		bi, _ := new(big.Int).SetString(val.ExactString(), 10)
		if b, ok := t.Underlying().(*types.Basic); ok && b.Info()&types.IsUntyped != 0 {
			return TV{Lit: bi}
		}
		ti := vc.info(t)
		return TV{T: vc.intLit(bi, ti.bits), Ty: goTy(t)}
	}
	specFail("unsupported constant kind")
	return TV{}
}

func (vc *VC) evalSelect(x *SSelect, env *Env) TV {
	// ghost variable with dotted name, e.g. K.fdt
	if full, ok := dottedName(x); ok {
		if _, shadow := env.bound[strings.SplitN(full, ".", 2)[0]]; !shadow {
			if g := vc.ghostVar(full); g != nil {
				return TV{T: env.state.get(vc, g.stateName), Ty: g.ty}
			}
		}
	}
	// result.N
	if id, ok := x.X.(*SIdent); ok && id.Name == "result" {
		if n := atoiDefault(x.Sel, -1); n >= 0 {
			if env.result == nil || n >= len(env.result) {
				specFail("result.%d not available", n)
			}
			return env.result[n]
		}
	}
	// package-qualified name
	if id, ok := x.X.(*SIdent); ok {
		_, isBound := env.bound[id.Name]
		isVar := false
		if env.lookup != nil {
			_, isVar = env.lookup(id.Name)
		}
		if !isBound && !isVar && vc.ghostVar(id.Name) == nil {
			if p := vc.findPackage(id.Name, env.pkg); p != nil {
				if v, ok := vc.pkgLevel(p, x.Sel, env); ok {
					return v
				}
				specFail("unknown name %s.%s", id.Name, x.Sel)
			}
		}
	}
	// a field of something addressable is read directly from its cell (not by loading the whole
	// enclosing struct and projecting)
	if _, isIdx := x.X.(*SIndex); isIdx {
		if ref, t, ok := vc.tryLvalue(x, env); ok {
			return TV{T: vc.load(env.state, ref, t), Ty: goTy(t)}
		}
	} else if inner, isSel := x.X.(*SSelect); isSel {
		if _, isIdx2 := inner.X.(*SIndex); isIdx2 {
			if ref, t, ok := vc.tryLvalue(x, env); ok {
				return TV{T: vc.load(env.state, ref, t), Ty: goTy(t)}
			}
		}
	}
	base := vc.evalSpec(x.X, env)
	if base.Ty == nil || base.Ty.Go == nil {
		specFail("cannot select .%s", x.Sel)
	}
	return vc.selectField(base, x.Sel, env)
}

func dottedName(x SExpr) (string, bool) {
	switch x := x.(type) {
	case *SIdent:
		return x.Name, true
	case *SSelect:
		if b, ok := dottedName(x.X); ok {
			return b + "." + x.Sel, true
		}
	}
	return "", false
}

func (vc *VC) selectField(base TV, sel string, env *Env) TV {
	t := base.Ty.Go
	// tuple index
	if tup, ok := t.(*types.Tuple); ok {
		n := atoiDefault(sel, -1)
		if n < 0 || n >= tup.Len() {
			specFail("bad tuple index .%s", sel)
		}
		return TV{T: vc.tupleField(base.T, tup, n), Ty: goTy(tup.At(n).Type())}
	}
	obj, index, _ := types.LookupFieldOrMethod(t, true, nil, sel)
	if obj == nil {
		// try unexported with package
		if n, ok := derefNamed(t); ok && n.Obj().Pkg() != nil {
			obj, index, _ = types.LookupFieldOrMethod(t, true, n.Obj().Pkg(), sel)
		}
	}
	if obj == nil {
		// search embedded structs for unexported field without package info
		obj, index = vc.lookupFieldAnyPkg(t, sel)
	}
	fv, ok := obj.(*types.Var)
	if !ok || fv == nil {
		specFail("no field %s in %s", sel, t)
	}
	cur := base
	for _, fi := range index {
		ct := cur.Ty.Go
		if p, ok := ct.Underlying().(*types.Pointer); ok {
			st := p.Elem()
			sti := vc.info(st)
			if sti.kind != "struct" {
				specFail("field of non-struct pointer")
			}
			ft := sti.st.Field(fi).Type()
			cur = TV{T: vc.load(env.state, vc.fld(cur.T, fi), ft), Ty: goTy(ft)}
		} else {
			sti := vc.info(ct)
			if sti.kind != "struct" {
				specFail("field of non-struct %s", ct)
			}
			cur = TV{T: vc.structField(cur.T, ct, fi), Ty: goTy(sti.st.Field(fi).Type())}
		}
	}
	return cur
}

func derefNamed(t types.Type) (*types.Named, bool) {
	if p, ok := t.Underlying().(*types.Pointer); ok {
		t = p.Elem()
	}
	n, ok := types.Unalias(t).(*types.Named)
	return n, ok
}

func (vc *VC) lookupFieldAnyPkg(t types.Type, sel string) (types.Object, []int) {
	if p, ok := t.Underlying().(*types.Pointer); ok {
		t = p.Elem()
	}
	st, ok := t.Underlying().(*types.Struct)
	if !ok {
		return nil, nil
	}
	for i := 0; i < st.NumFields(); i++ {
		if st.Field(i).Name() == sel {
			return st.Field(i), []int{i}
		}
	}
	for i := 0; i < st.NumFields(); i++ {
		if st.Field(i).Embedded() {
			if o, idx := vc.lookupFieldAnyPkg(st.Field(i).Type(), sel); o != nil {
				return o, append([]int{i}, idx...)
			}
		}
	}
	return nil, nil
}

func (vc *VC) evalCall(x *SCall, env *Env) TV {
	intTy := goTy(types.Typ[types.Int])
	boolTy := goTy(types.Typ[types.Bool])
	switch x.Fn {
	case "len", "cap":
		if len(x.Args) != 1 {
			specFail("%s takes one argument", x.Fn)
		}
		v := vc.evalSpec(x.Args[0], env)
		if v.Ty == nil || v.Ty.Go == nil {
			specFail("len of ghost value")
		}
		switch u := v.Ty.Go.Underlying().(type) {
		case *types.Slice:
			if x.Fn == "len" {
				return TV{T: vc.sliceLen(v.T), Ty: intTy}
			}
			return TV{T: vc.sliceCap(v.T), Ty: intTy}
		case *types.Basic:
			if u.Info()&types.IsString != 0 {
				return TV{T: vc.strLen(v.T), Ty: intTy}
			}
		case *types.Array:
			return TV{T: vc.idxLit(u.Len()), Ty: intTy}
		case *types.Pointer:
			if a, ok := u.Elem().Underlying().(*types.Array); ok {
				return TV{T: vc.idxLit(a.Len()), Ty: intTy}
			}
		case *types.Map:
			return TV{T: vc.mapLen(env.state, v.T, u), Ty: intTy}
		}
		specFail("len of %s", v.Ty.Go)
	case "fresh":
		// allocated during this call: root id is not below the entry allocation counter
		v := vc.evalSpec(x.Args[0], env)
		ref := vc.refOf(v)
		if env.old == nil {
			specFail("fresh() needs an old state")
		}
		return TV{T: And(Not(Eq(ref, TNull)), App(SBool, ">=", vc.rootOf(ref), env.old.get(vc, "$alloc"))), Ty: boolTy}
	case "allocated":
		v := vc.evalSpec(x.Args[0], env)
		ref := vc.refOf(v)
		return TV{T: App(SBool, "<", vc.rootOf(ref), env.state.get(vc, "$alloc")), Ty: boolTy}
	case "addr":
		// address of a pointer value as the uintptr the kernel sees
		v := vc.evalSpec(x.Args[0], env)
		return TV{T: vc.addrOf(vc.refOf(v)), Ty: goTy(types.Typ[types.Uintptr])}
	case "ptr":
		v := vc.materialize(vc.evalSpec(x.Args[0], env), goTy(types.Typ[types.Uintptr]))
		return TV{T: App(SRef, "ptr_of", v.T), Ty: goTy(types.Typ[types.UnsafePointer])}
	case "elemaddr":
		// elemaddr(s, i): the Ref of element i of slice s
		s := vc.evalSpec(x.Args[0], env)
		i := vc.materialize(vc.evalSpec(x.Args[1], env), intTy)
		return TV{T: vc.elemAt(vc.sliceArr(s.T), vc.sliceOff(s.T), vc.toIdx(i)), Ty: goTy(types.Typ[types.UnsafePointer])}
	case "cell":
		// cell(s, j): the element of s's backing array at absolute index j (independent of s's offset,
		// so that facts stated this way survive re-slicing)
		sv := vc.evalSpec(x.Args[0], env)
		sl, ok := sv.Ty.Go.Underlying().(*types.Slice)
		if !ok {
			specFail("cell(s, j): s must be a slice")
		}
		j := vc.materialize(vc.evalSpec(x.Args[1], env), intTy)
		return TV{T: vc.load(env.state, vc.elem(vc.sliceArr(sv.T), vc.toIdx(j)), sl.Elem()), Ty: goTy(sl.Elem())}
	case "at":
		// at(H, s, k): element k of slice s read from the memory array value H
		h := vc.evalSpec(x.Args[0], env)
		sv := vc.evalSpec(x.Args[1], env)
		sl, ok := sv.Ty.Go.Underlying().(*types.Slice)
		if !ok || h.Ty == nil || h.Ty.Raw == "" {
			specFail("at(H, s, k): H must be a memory array and s a slice")
		}
		k := vc.materialize(vc.evalSpec(x.Args[2], env), intTy)
		ei := vc.info(sl.Elem())
		return TV{T: Select(h.T, vc.elemAt(vc.sliceArr(sv.T), vc.sliceOff(sv.T), vc.toIdx(k)), ei.sort), Ty: goTy(sl.Elem())}
	case "addrof":
		ref, t := vc.lvalue(x.Args[0], env)
		return TV{T: ref, Ty: goTy(types.NewPointer(t))}
	case "has":
		// has(m, k): key k is present in Go map m
		m := vc.evalSpec(x.Args[0], env)
		mt, ok := m.Ty.Go.Underlying().(*types.Map)
		if !ok {
			specFail("has(m,k): m must be a Go map")
		}
		k := vc.materialize(vc.evalSpec(x.Args[1], env), goTy(mt.Key()))
		return TV{T: And(Not(Eq(m.T, TNull)), vc.mapHas(env.state, m.T, k.T, mt)), Ty: boolTy}
	case "sarr":
		v := vc.evalSpec(x.Args[0], env)
		if v.T.Sort != SSlice {
			specFail("sarr of non-slice")
		}
		return TV{T: vc.sliceArr(v.T), Ty: goTy(types.Typ[types.UnsafePointer])}
	case "soff":
		v := vc.evalSpec(x.Args[0], env)
		if v.T.Sort != SSlice {
			specFail("soff of non-slice")
		}
		return TV{T: vc.sliceOff(v.T), Ty: intTy}
	case "deref_as":
		// deref_as(p, T): the value of Go type T stored at reference p
		v := vc.evalSpec(x.Args[0], env)
		tn, ok := dottedName(x.Args[1])
		if !ok {
			specFail("deref_as: second argument must be a type name")
		}
		ty := vc.parseSpecType(tn, env.pkg)
		return TV{T: vc.load(env.state, vc.refOf(v), ty.Go), Ty: ty}
	case "ref_as":
		// ref_as(p, T): p viewed as a *T
		v := vc.evalSpec(x.Args[0], env)
		tn, ok := dottedName(x.Args[1])
		if !ok {
			specFail("ref_as: second argument must be a type name")
		}
		ty := vc.parseSpecType(tn, env.pkg)
		return TV{T: vc.refOf(v), Ty: goTy(types.NewPointer(ty.Go))}
	case "iface":
		// iface(x): x boxed in an interface value (scalars and pointers only)
		v := vc.evalSpec(x.Args[0], env)
		if v.Ty == nil || v.Ty.Go == nil {
			specFail("iface() of untyped value")
		}
		ti := vc.info(v.Ty.Go)
		var box Term
		switch ti.kind {
		case "ref":
			box = v.T
		case "int":
			box = App(SRef, "boxi", vc.convInt(v.T, ti.bits, ti.signed, 64, ti.signed))
		case "str":
			box = App(SRef, "boxs", v.T)
		case "bool":
			box = App(SRef, "boxb", v.T)
		default:
			specFail("iface() of composite value")
		}
		return TV{T: App(SIface, "mkiface", IntLit(int64(vc.typeID(v.Ty.Go))), box), Ty: goTy(types.Universe.Lookup("error").Type())}
	case "unbox_int":
		// unbox_int(i): the integer payload of an interface value holding an integer type
		v := vc.evalSpec(x.Args[0], env)
		return TV{T: App(vc.idxSort(), "bival", App(SRef, "ival", v.T)), Ty: intTy}
	case "typeof":
		v := vc.evalSpec(x.Args[0], env)
		if v.T.Sort != SIface {
			specFail("typeof needs an interface value")
		}
		if vc.mode == ModeBV {
			specFail("typeof only in comparisons via hastype()")
		}
		return TV{T: App(SInt, "ityp", v.T), Ty: goTy(types.Typ[types.Int])}
	case "hastype":
		v := vc.evalSpec(x.Args[0], env)
		tn, ok := dottedName(x.Args[1])
		if !ok {
			specFail("hastype: second argument must be a type name")
		}
		ty := vc.parseSpecType(tn, env.pkg)
		return TV{T: Eq(App(SInt, "ityp", v.T), IntLit(int64(vc.typeID(ty.Go)))), Ty: boolTy}
	case "sep":
		// sep(p, q): p and q point into different heap objects
		a, b := vc.evalSpec(x.Args[0], env), vc.evalSpec(x.Args[1], env)
		return TV{T: Not(Eq(App(SInt, "root", vc.refOf(a)), App(SInt, "root", vc.refOf(b)))), Ty: boolTy}
	case "isnil":
		v := vc.evalSpec(x.Args[0], env)
		return TV{T: Eq(v.T, vc.zero(v.Ty.Go)), Ty: boolTy}
	}
	// conversion to a basic type
	if o := types.Universe.Lookup(x.Fn); o != nil {
		if tn, ok := o.(*types.TypeName); ok && len(x.Args) == 1 {
			return vc.specConvert(vc.evalSpec(x.Args[0], env), goTy(tn.Type()))
		}
	}
	// explicit-heap call of a heap-dependent spec function: f_at(H1.., args..)
	if strings.HasSuffix(x.Fn, "_at") {
		if fn, ok := vc.specs.Fns[strings.TrimSuffix(x.Fn, "_at")]; ok && len(fn.Reads) > 0 {
			name := strings.TrimSuffix(x.Fn, "_at")
			vc.useSpecFn(name, env.pkg)
			if len(x.Args) != len(fn.Reads)+len(fn.Params) {
				specFail("%s: wrong number of arguments", x.Fn)
			}
			var heaps, args []Term
			for i := range fn.Reads {
				heaps = append(heaps, vc.evalSpec(x.Args[i], env).T)
			}
			for i, a := range x.Args[len(fn.Reads):] {
				pt := vc.parseSpecType(fn.Params[i].Type, env.pkg)
				args = append(args, vc.materialize(vc.evalSpec(a, env), pt).T)
			}
			rt := vc.parseSpecType(fn.Result, env.pkg)
			return TV{T: App(vc.specSort(rt), "sf_"+sanitize(name), append(args, heaps...)...), Ty: rt}
		}
	}
	// macro: expanded in the caller's environment
	if m, ok := vc.specs.Macros[x.Fn]; ok {
		if len(m.Params) != len(x.Args) {
			specFail("macro %s: wrong number of arguments", x.Fn)
		}
		e2 := *env
		e2.bound = map[string]TV{}
		for k, v := range env.bound {
			e2.bound[k] = v
		}
		for i, p := range m.Params {
			e2.bound[p] = vc.evalSpec(x.Args[i], env)
		}
		return vc.evalSpec(m.Body, &e2)
	}
	// spec function
	if fn, ok := vc.specs.Fns[x.Fn]; ok {
		vc.useSpecFn(x.Fn, env.pkg)
		if len(fn.Params) != len(x.Args) {
			specFail("spec fn %s: wrong number of arguments", x.Fn)
		}
		var args []Term
		for i, a := range x.Args {
			pt := vc.parseSpecType(fn.Params[i].Type, env.pkg)
			v := vc.materialize(vc.evalSpec(a, env), pt)
			if v.T.Sort != vc.specSort(pt) {
				specFail("spec fn %s: argument %d has sort %s, want %s", x.Fn, i, v.T.Sort, vc.specSort(pt))
			}
			args = append(args, v.T)
		}
		for _, rn := range fn.Reads {
			vc.registerState(rn, vc.memSortByName(rn))
			args = append(args, env.state.get(vc, rn))
		}
		rt := vc.parseSpecType(fn.Result, env.pkg)
		if len(args) == 0 {
			return TV{T: Term{"sf_" + sanitize(x.Fn), vc.specSort(rt)}, Ty: rt}
		}
		return TV{T: App(vc.specSort(rt), "sf_"+sanitize(x.Fn), args...), Ty: rt}
	}
	// conversion to a named type: T(x) / pkg.T(x)
	if len(x.Args) == 1 {
		if ty := vc.tryParseSpecType(x.Fn, env.pkg); ty != nil {
			return vc.specConvert(vc.evalSpec(x.Args[0], env), ty)
		}
	}
	specFail("unknown function %s in spec", x.Fn)
	return TV{}
}

func (vc *VC) tryParseSpecType(s string, pkg *types.Package) (ty *SpecTy) {
	defer func() {
		if r := recover(); r != nil {
			if _, ok := r.(specError); ok {
				ty = nil
				return
			}
			panic(r)
		}
	}()
	return vc.parseSpecType(s, pkg)
}

func (vc *VC) specConvert(v TV, to *SpecTy) TV {
	if v.Lit != nil || v.Nil {
		return vc.materialize(v, to)
	}
	fi, ti := vc.info(v.Ty.Go), vc.info(to.Go)
	if fi.kind == "int" && ti.kind == "int" {
		return TV{T: vc.convInt(v.T, fi.bits, fi.signed, ti.bits, ti.signed), Ty: to}
	}
	if fi.sort == ti.sort {
		return TV{T: v.T, Ty: to}
	}
	specFail("cannot convert %s to %s in spec", v.Ty.Go, to.Go)
	return TV{}
}

// refOf gives the Ref identifying a pointer-like value (pointer, slice backing array).
func (vc *VC) refOf(v TV) Term {
	switch v.T.Sort {
	case SRef:
		return v.T
	case SSlice:
		return vc.sliceArr(v.T)
	case SIface:
		return App(SRef, "ival", v.T)
	}
	specFail("value has no reference identity")
	return Term{}
}

// intLiteral recognises a non-negative or negated integer literal term.
func intLiteral(t Term) (*big.Int, bool) {
	s := t.S
	neg := false
	if strings.HasPrefix(s, "(- ") && strings.HasSuffix(s, ")") {
		neg = true
		s = s[3 : len(s)-1]
	}
	if s == "" {
		return nil, false
	}
	for _, c := range s {
		if c < '0' || c > '9' {
			return nil, false
		}
	}
	v, ok := new(big.Int).SetString(s, 10)
	if !ok {
		return nil, false
	}
	if neg {
		v.Neg(v)
	}
	return v, true
}

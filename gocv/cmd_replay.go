package main

import (
	"encoding/json"
	"fmt"
	"os"
	"strings"
	"time"
)

// gocv replay <file>: re-runs what a replay file recorded against the current tree.
//   - a failed obligation with a generated test (scalar harness): the test is injected again and run;
//     exit 1 if the real code still falsifies the postcondition, 0 if it no longer does;
//   - a bounded-check failure: names the bounded check to re-run;
//   - otherwise: prints the obligation and the solver output (there is no input to replay).
func cmdReplay(args []string) int {
	if len(args) != 1 {
		fmt.Fprintln(os.Stderr, "usage: gocv replay <replay file>")
		return 2
	}
	os.Setenv("PATH", "/opt/veriftools/go1.26.8/bin:"+os.Getenv("PATH"))
	os.Setenv("GOTOOLCHAIN", "local")
	data, err := os.ReadFile(args[0])
	if err != nil {
		fmt.Fprintln(os.Stderr, err)
		return 2
	}
	var rep map[string]any
	if err := json.Unmarshal(data, &rep); err != nil {
		fmt.Fprintln(os.Stderr, err)
		return 2
	}
	if bc, ok := rep["bounded_check"].(string); ok {
		fmt.Printf("bounded check %s, failing case %v: %v\nre-run: bin/gocv check %v\n", bc, rep["key"], rep["detail"], rep["property"])
		return 1
	}
	fmt.Printf("obligation: %v\nfunction:   %v (%v)\nat:         %v\nsolver:     %v -> %v\n", rep["obligation"], rep["function"], rep["mode"], rep["at"], rep["solver"], rep["status"])
	if r, ok := rep["replay_search"].(map[string]any); ok {
		if src, ok := r["test_source"].(string); ok && src != "" {
			fn, _ := rep["function"].(string)
			pkg := fn
			if i := strings.LastIndex(pkg, "."); i >= 0 {
				pkg = pkg[:i]
			}
			if i := strings.Index(pkg, ".("); i >= 0 {
				pkg = pkg[:i]
			}
			out, _ := runOverlaySource(pkg, src, "zz_gocv_replay_search_test.go", "TestGocvReplaySearch", 120*time.Second)
			for _, l := range strings.Split(out, "\n") {
				if strings.HasPrefix(l, "GOCV-REPLAY") {
					fmt.Println(l)
				}
			}
			if strings.Contains(out, "GOCV-REPLAY holds=false") || strings.Contains(out, "GOCV-REPLAY panic=") {
				fmt.Println("replayed: the real code falsifies the obligation on this input (search over the recorded domain)")
				return 1
			}
			fmt.Println("not reproduced on the current tree (no failing input in the recorded search domain)")
			return 0
		}
	}
	if r, ok := rep["replay"].(map[string]any); ok {
		if src, ok := r["test_source"].(string); ok && src != "" {
			fn, _ := rep["function"].(string)
			pkg := fn
			if i := strings.LastIndex(pkg, "."); i >= 0 {
				pkg = pkg[:i]
			}
			if i := strings.Index(pkg, ".("); i >= 0 {
				pkg = pkg[:i]
			}
			out, _ := runOverlaySource(pkg, src, "zz_gocv_replay_scalar_test.go", "TestGocvReplayScalar", 90*time.Second)
			fmt.Printf("inputs: %v\n%s", r["inputs"], out)
			if strings.Contains(out, "GOCV-REPLAY holds=false") || strings.Contains(out, "GOCV-REPLAY panic=") {
				fmt.Println("replayed: the real code falsifies the postcondition on these inputs")
				return 1
			}
			fmt.Println("not reproduced on the current tree")
			return 0
		}
		fmt.Printf("replay: %v\n", r["status"])
	}
	if n, ok := rep["note"].(string); ok {
		fmt.Println("note:", n)
	}
	fmt.Println("no failing input recorded; re-run the property check to re-decide the obligation")
	return 1
}

package main

import (
	"fmt"
	"go/types"
	"hash/fnv"
	"math/big"
	"strings"
)

type Mode int

const (
	ModeBV Mode = iota
	ModeInt
)

func (m Mode) String() string {
	if m == ModeBV {
		return "bv"
	}
	return "int"
}

// typeInfo describes how a Go type is represented.
type typeInfo struct {
	sort   Sort
	kind   string // bool int str ref slice iface struct array tuple opaque
	bits   int    // for ints
	signed bool
	memKey string // for leaf kinds: name of the memory array
	st     *types.Struct
	arr    *types.Array
	tup    *types.Tuple
}

func sanitize(s string) string {
	var b strings.Builder
	for _, r := range s {
		switch {
		case r >= 'a' && r <= 'z', r >= 'A' && r <= 'Z', r >= '0' && r <= '9', r == '_':
			b.WriteRune(r)
		default:
			b.WriteByte('_')
		}
	}
	return b.String()
}

func hashStr(s string) string {
	h := fnv.New32a()
	h.Write([]byte(s))
	return fmt.Sprintf("%08x", h.Sum32())
}

func (vc *VC) idxSort() Sort {
	if vc.mode == ModeBV {
		return BVSort(64)
	}
	return SInt
}

func (vc *VC) intSort(bits int) Sort {
	if vc.mode == ModeBV {
		return BVSort(bits)
	}
	return SInt
}

func basicBits(b *types.Basic) (bits int, signed bool, ok bool) {
	switch b.Kind() {
	case types.Int, types.Int64, types.UntypedInt, types.UntypedRune:
		return 64, true, true
	case types.Int8:
		return 8, true, true
	case types.Int16:
		return 16, true, true
	case types.Int32:
		return 32, true, true
	case types.Uint, types.Uint64, types.Uintptr:
		return 64, false, true
	case types.Uint8:
		return 8, false, true
	case types.Uint16:
		return 16, false, true
	case types.Uint32:
		return 32, false, true
	}
	return 0, false, false
}

// info returns the representation of a Go type (declaring datatypes on demand).
func (vc *VC) info(t types.Type) *typeInfo {
	if ti, ok := vc.tinfo[t]; ok {
		return ti
	}
	ti := vc.computeInfo(t)
	vc.tinfo[t] = ti
	return ti
}

func (vc *VC) computeInfo(t types.Type) *typeInfo {
	switch u := t.Underlying().(type) {
	case *types.Basic:
		if u.Kind() == types.Bool || u.Kind() == types.UntypedBool {
			return &typeInfo{sort: SBool, kind: "bool", memKey: "bool"}
		}
		if u.Kind() == types.String || u.Kind() == types.UntypedString {
			return &typeInfo{sort: SStr, kind: "str", memKey: "string"}
		}
		if u.Kind() == types.UnsafePointer || u.Kind() == types.UntypedNil {
			return &typeInfo{sort: SRef, kind: "ref", memKey: "ptr"}
		}
		if bits, signed, ok := basicBits(u); ok {
			name := u.Name()
			if u.Kind() == types.UntypedInt || u.Kind() == types.UntypedRune {
				name = "int"
			}
			if name == "byte" {
				name = "uint8"
			}
			if name == "rune" {
				name = "int32"
			}
			return &typeInfo{sort: vc.intSort(bits), kind: "int", bits: bits, signed: signed, memKey: name}
		}
		vc.needOpaque = true
		return &typeInfo{sort: "Opaque", kind: "opaque", memKey: "opaque"}
	case *types.Pointer, *types.Map, *types.Chan, *types.Signature:
		key := "ptr"
		switch u.(type) {
		case *types.Map:
			key = "map"
		case *types.Chan:
			key = "chan"
		case *types.Signature:
			key = "func"
		}
		return &typeInfo{sort: SRef, kind: "ref", memKey: key}
	case *types.Slice:
		return &typeInfo{sort: SSlice, kind: "slice", memKey: "slice"}
	case *types.Interface:
		return &typeInfo{sort: SIface, kind: "iface", memKey: "iface"}
	case *types.Struct:
		name := ""
		if n, ok := t.(*types.Named); ok {
			p := ""
			if n.Obj().Pkg() != nil {
				p = shortPkg(n.Obj().Pkg().Path())
			}
			name = "S_" + sanitize(p+"_"+n.Obj().Name())
			if n.TypeArgs() != nil && n.TypeArgs().Len() > 0 {
				name += "_" + hashStr(t.String())
			}
		} else if al, ok := t.(*types.Alias); ok {
			return vc.info(types.Unalias(al))
		} else {
			name = "S_anon_" + hashStr(u.String())
		}
		ti := &typeInfo{sort: Sort(name), kind: "struct", st: u}
		if !vc.declared[name] {
			vc.declared[name] = true
			// register early to break recursion (recursive struct values are impossible in Go)
			vc.tinfo[t] = ti
			var b strings.Builder
			if u.NumFields() == 0 {
				fmt.Fprintf(&b, "(declare-datatypes ((%s 0)) (((mk_%s))))", name, name)
			} else {
				fmt.Fprintf(&b, "(declare-datatypes ((%s 0)) (((mk_%s", name, name)
				for i := 0; i < u.NumFields(); i++ {
					fmt.Fprintf(&b, " (%s_%d %s)", name, i, vc.info(u.Field(i).Type()).sort)
				}
				b.WriteString("))))")
			}
			vc.typeDecls = append(vc.typeDecls, b.String())
		}
		return ti
	case *types.Array:
		ei := vc.info(u.Elem())
		return &typeInfo{sort: ArrSort(vc.idxSort(), ei.sort), kind: "array", arr: u}
	case *types.Tuple:
		return vc.tupleInfo(u)
	}
	vc.needOpaque = true
	return &typeInfo{sort: "Opaque", kind: "opaque", memKey: "opaque"}
}

func (vc *VC) tupleInfo(u *types.Tuple) *typeInfo {
	var sorts []string
	for i := 0; i < u.Len(); i++ {
		sorts = append(sorts, string(vc.info(u.At(i).Type()).sort))
	}
	name := "T_" + hashStr(strings.Join(sorts, ","))
	if !vc.declared[name] {
		vc.declared[name] = true
		var b strings.Builder
		fmt.Fprintf(&b, "(declare-datatypes ((%s 0)) (((mk_%s", name, name)
		for i, s := range sorts {
			fmt.Fprintf(&b, " (%s_%d %s)", name, i, s)
		}
		b.WriteString("))))")
		vc.typeDecls = append(vc.typeDecls, b.String())
	}
	return &typeInfo{sort: Sort(name), kind: "tuple", tup: u}
}

// structField selects field i of a struct value.
func (vc *VC) structField(v Term, st types.Type, i int) Term {
	ti := vc.info(st)
	ft := ti.st.Field(i).Type()
	return App(vc.info(ft).sort, fmt.Sprintf("%s_%d", ti.sort, i), v)
}

func (vc *VC) mkStruct(st types.Type, fields []Term) Term {
	ti := vc.info(st)
	if len(fields) == 0 {
		return Term{"mk_" + string(ti.sort), ti.sort}
	}
	return App(ti.sort, "mk_"+string(ti.sort), fields...)
}

func (vc *VC) tupleField(v Term, tup *types.Tuple, i int) Term {
	ti := vc.tupleInfo(tup)
	return App(vc.info(tup.At(i).Type()).sort, fmt.Sprintf("%s_%d", ti.sort, i), v)
}

func (vc *VC) mkTuple(tup *types.Tuple, fields []Term) Term {
	ti := vc.tupleInfo(tup)
	return App(ti.sort, "mk_"+string(ti.sort), fields...)
}

// ---- integers ----

func (vc *VC) intLit(v *big.Int, bits int) Term {
	if vc.mode == ModeBV {
		m := new(big.Int).Lsh(big.NewInt(1), uint(bits))
		x := new(big.Int).Mod(v, m)
		if bits%4 == 0 {
			return Term{fmt.Sprintf("#x%0*s", bits/4, x.Text(16)), BVSort(bits)}
		}
		return Term{fmt.Sprintf("#b%0*s", bits, x.Text(2)), BVSort(bits)}
	}
	if v.Sign() < 0 {
		return Term{fmt.Sprintf("(- %s)", new(big.Int).Neg(v).String()), SInt}
	}
	return Term{v.String(), SInt}
}

func (vc *VC) idxLit(v int64) Term { return vc.intLit(big.NewInt(v), 64) }

func typeRange(bits int, signed bool) (lo, hi *big.Int) {
	if signed {
		hi = new(big.Int).Sub(new(big.Int).Lsh(big.NewInt(1), uint(bits-1)), big.NewInt(1))
		lo = new(big.Int).Neg(new(big.Int).Lsh(big.NewInt(1), uint(bits-1)))
		return
	}
	return big.NewInt(0), new(big.Int).Sub(new(big.Int).Lsh(big.NewInt(1), uint(bits)), big.NewInt(1))
}

// inRange is the type invariant of an integer term (only meaningful in int mode).
func (vc *VC) inRange(x Term, bits int, signed bool) Term {
	if vc.mode == ModeBV {
		return TTrue
	}
	lo, hi := typeRange(bits, signed)
	return And(App(SBool, "<=", vc.intLit(lo, bits), x), App(SBool, "<=", x, vc.intLit(hi, bits)))
}

// typeInv is the invariant every value of type t satisfies (ranges, non-negative
// slice lengths, ...).
func (vc *VC) typeInv(x Term, t types.Type) Term {
	ti := vc.info(t)
	switch ti.kind {
	case "int":
		return vc.inRange(x, ti.bits, ti.signed)
	case "slice":
		return vc.sliceInv(x)
	case "str":
		// like slices, strings stay far below 2^62 bytes
		return And(vc.le(vc.idxLit(0), vc.strLen(x), true), vc.le(vc.strLen(x), vc.intLit(new(big.Int).Lsh(big.NewInt(1), 40), 64), true))
	case "struct":
		var cs []Term
		for i := 0; i < ti.st.NumFields(); i++ {
			cs = append(cs, vc.typeInv(vc.structField(x, t, i), ti.st.Field(i).Type()))
		}
		return And(cs...)
	case "tuple":
		var cs []Term
		for i := 0; i < ti.tup.Len(); i++ {
			cs = append(cs, vc.typeInv(vc.tupleField(x, ti.tup, i), ti.tup.At(i).Type()))
		}
		return And(cs...)
	}
	return TTrue
}

func (vc *VC) sliceInv(s Term) Term {
	z := vc.idxLit(0)
	ln, cp, off := vc.sliceLen(s), vc.sliceCap(s), vc.sliceOff(s)
	max := vc.intLit(new(big.Int).Lsh(big.NewInt(1), 40), 64) // lengths and offsets stay far below 2^62: no overflow in off+i
	return And(vc.le(z, ln, true), vc.le(ln, cp, true), vc.le(z, off, true), vc.le(cp, max, true), vc.le(off, max, true),
		Implies(Eq(vc.sliceArr(s), TNull), Eq(cp, z)))
}

func (vc *VC) sliceArr(s Term) Term { return App(SRef, "sarr", s) }
func (vc *VC) sliceOff(s Term) Term { return App(vc.idxSort(), "soff", s) }
func (vc *VC) sliceLen(s Term) Term { return App(vc.idxSort(), "slen", s) }
func (vc *VC) sliceCap(s Term) Term { return App(vc.idxSort(), "scap", s) }
func (vc *VC) mkSlice(arr, off, ln, cp Term) Term {
	return App(SSlice, "mkslice", arr, off, ln, cp)
}
func (vc *VC) nilSlice() Term {
	z := vc.idxLit(0)
	return vc.mkSlice(TNull, z, z, z)
}
func (vc *VC) strLen(s Term) Term { return App(vc.idxSort(), "str.len_", s) }

// comparison / arithmetic helpers on index-sorted (or any same-sorted int) terms
func (vc *VC) le(a, b Term, signed bool) Term { return vc.cmp("<=", a, b, signed) }
func (vc *VC) lt(a, b Term, signed bool) Term { return vc.cmp("<", a, b, signed) }

func (vc *VC) cmp(op string, a, b Term, signed bool) Term {
	if vc.mode == ModeInt || a.Sort == SInt {
		return App(SBool, op, a, b)
	}
	var f string
	switch op {
	case "<":
		f = "bvult"
		if signed {
			f = "bvslt"
		}
	case "<=":
		f = "bvule"
		if signed {
			f = "bvsle"
		}
	case ">":
		f = "bvugt"
		if signed {
			f = "bvsgt"
		}
	case ">=":
		f = "bvuge"
		if signed {
			f = "bvsge"
		}
	}
	return App(SBool, f, a, b)
}

func (vc *VC) add(a, b Term) Term {
	if a.Sort == SInt {
		return App(SInt, "+", a, b)
	}
	return App(a.Sort, "bvadd", a, b)
}
func (vc *VC) sub(a, b Term) Term {
	if a.Sort == SInt {
		return App(SInt, "-", a, b)
	}
	return App(a.Sort, "bvsub", a, b)
}

// convInt converts an integer term between Go integer types with Go semantics.
func (vc *VC) convInt(x Term, fromBits int, fromSigned bool, toBits int, toSigned bool) Term {
	if vc.mode == ModeBV {
		switch {
		case toBits == fromBits:
			return Term{x.S, BVSort(toBits)}
		case toBits < fromBits:
			return App(BVSort(toBits), fmt.Sprintf("(_ extract %d 0)", toBits-1), x)
		default:
			if fromSigned {
				return App(BVSort(toBits), fmt.Sprintf("(_ sign_extend %d)", toBits-fromBits), x)
			}
			return App(BVSort(toBits), fmt.Sprintf("(_ zero_extend %d)", toBits-fromBits), x)
		}
	}
	// int mode: value preserved when representable, else wrapped
	flo, fhi := typeRange(fromBits, fromSigned)
	tlo, thi := typeRange(toBits, toSigned)
	if flo.Cmp(tlo) >= 0 && fhi.Cmp(thi) <= 0 {
		return x
	}
	m := new(big.Int).Lsh(big.NewInt(1), uint(toBits))
	ms := m.String()
	var wrapped Term
	if toSigned {
		half := new(big.Int).Rsh(m, 1).String()
		wrapped = Term{fmt.Sprintf("(- (mod (+ %s %s) %s) %s)", x.S, half, ms, half), SInt}
	} else {
		wrapped = Term{fmt.Sprintf("(mod %s %s)", x.S, ms), SInt}
	}
	in := And(App(SBool, "<=", vc.intLit(tlo, toBits), x), App(SBool, "<=", x, vc.intLit(thi, toBits)))
	return Ite(in, x, wrapped)
}

// ---- refs ----

func (vc *VC) fld(base Term, i int) Term {
	t := App(SRef, "fld", base, IntLit(int64(i)))
	return t
}

func (vc *VC) elem(base, idx Term) Term {
	return App(SRef, "elem", base, idx)
}

// ix is offset addition for element addresses. It is an uninterpreted function with the
// defining axiom ix(a,b) = a+b (pattern ix(a,b)): quantifier triggers that mention an element
// address then contain no interpreted arithmetic, which E-matching handles poorly.
func (vc *VC) ix(off, i Term) Term {
	if off.S == vc.idxLit(0).S {
		return i
	}
	return App(vc.idxSort(), "ix_", off, i)
}

// elemAt: the cell of element i of a slice with backing array arr and offset off.
func (vc *VC) elemAt(arr, off, i Term) Term {
	return vc.elem(arr, vc.ix(off, i))
}

// zero value of a type
func (vc *VC) zero(t types.Type) Term {
	ti := vc.info(t)
	switch ti.kind {
	case "bool":
		return TFalse
	case "int":
		return vc.intLit(big.NewInt(0), ti.bits)
	case "str":
		return vc.strLitTerm("")
	case "ref":
		return TNull
	case "slice":
		return vc.nilSlice()
	case "iface":
		return Term{"nil_iface", SIface}
	case "struct":
		var fs []Term
		for i := 0; i < ti.st.NumFields(); i++ {
			fs = append(fs, vc.zero(ti.st.Field(i).Type()))
		}
		return vc.mkStruct(t, fs)
	case "array":
		ei := vc.info(ti.arr.Elem())
		return Term{fmt.Sprintf("((as const %s) %s)", ti.sort, vc.zero(ti.arr.Elem()).S), ArrSort(vc.idxSort(), ei.sort)}
	}
	return vc.freshConst("zero_opaque", ti.sort)
}

func (vc *VC) preamble() string {
	idx := vc.idxSort()
	var b strings.Builder
	b.WriteString("(declare-sort Str 0)\n")
	if vc.needOpaque {
		b.WriteString("(declare-sort Opaque 0)\n")
	}
	fmt.Fprintf(&b, "(declare-datatypes ((Ref 0)) (((null) (obj (oid Int)) (fld (fbase Ref) (fidx Int)) (elem (ebase Ref) (eidx %s)) (glob (gid Int)) (boxi (bival %s)) (boxs (bsval Str)) (boxb (bbval Bool)))))\n", idx, idx)
	fmt.Fprintf(&b, "(declare-datatypes ((Slice 0)) (((mkslice (sarr Ref) (soff %s) (slen %s) (scap %s)))))\n", idx, idx, idx)
	b.WriteString("(declare-datatypes ((Iface 0)) (((mkiface (ityp Int) (ival Ref)))))\n")
	b.WriteString("(define-fun nil_iface () Iface (mkiface 0 null))\n")
	fmt.Fprintf(&b, "(declare-fun str.len_ (Str) %s)\n", idx)
	fmt.Fprintf(&b, "(declare-fun str.at_ (Str %s) %s)\n", idx, vc.intSort(8))
	b.WriteString("(declare-fun str.concat_ (Str Str) Str)\n")
	b.WriteString("(define-fun-rec root ((r Ref)) Int (ite ((_ is obj) r) (oid r) (ite ((_ is fld) r) (root (fbase r)) (ite ((_ is elem) r) (root (ebase r)) (ite ((_ is glob) r) (- (- 2) (gid r)) (- 1))))))\n")
	fmt.Fprintf(&b, "(declare-fun addr_of (Ref) %s)\n", vc.intSort(64))
	fmt.Fprintf(&b, "(declare-fun ptr_of (%s) Ref)\n", vc.intSort(64))
	fmt.Fprintf(&b, "(declare-fun ix_ (%s %s) %s)\n", idx, idx, idx)
	plus := "+"
	if vc.mode == ModeBV {
		plus = "bvadd"
	}
	fmt.Fprintf(&b, "(assert (forall ((a %s) (b %s)) (! (= (ix_ a b) (%s a b)) :pattern ((ix_ a b)))))\n", idx, idx, plus)
	// addresses are injective and only nil has address 0
	b.WriteString("(assert (forall ((r Ref)) (! (= (ptr_of (addr_of r)) r) :pattern ((addr_of r)))))\n")
	fmt.Fprintf(&b, "(assert (forall ((r Ref)) (! (= (= (addr_of r) %s) (= r null)) :pattern ((addr_of r)))))\n", vc.intLit(bigZero, 64).S)
	return b.String()
}

package main

import (
	"flag"
	"fmt"
	"os"
	"time"
)

func specDir() string {
	if d := os.Getenv("GOCV_SPEC"); d != "" {
		return d
	}
	if d := os.Getenv("GOCV_VERIF"); d != "" {
		return d + "/spec"
	}
	return "/verif/spec"
}

// cmdVC verifies single functions by name (developer command).
func cmdVC(args []string) int {
	fs := flag.NewFlagSet("vc", flag.ExitOnError)
	dump := fs.String("dump", "", "write the SMT script of the named obligation (substring) to stdout")
	timeout := fs.Int("timeout", 10, "per-query timeout (s)")
	verbose := fs.Bool("v", false, "list all obligations")
	fs.Parse(args)
	defer cleanupScratch()
	p, err := LoadProgram(repoDir())
	if err != nil {
		fmt.Fprintln(os.Stderr, err)
		return 2
	}
	specs, err := LoadSpecs(repoDir(), specDir())
	if err != nil {
		fmt.Fprintln(os.Stderr, err)
		return 2
	}
	rc := 0
	for _, name := range fs.Args() {
		con := specs.Contracts[name]
		if con == nil {
			fmt.Fprintf(os.Stderr, "no contract for %s\n", name)
			return 2
		}
		fn := p.Funcs[name]
		if fn == nil && con.Kind != "lemma" {
			fmt.Fprintf(os.Stderr, "no function %s\n", name)
			return 2
		}
		modes := con.Arith
		if len(modes) == 0 {
			modes = []string{"bv"}
		}
		for _, m := range modes {
			mode := ModeBV
			if m == "int" {
				mode = ModeInt
			}
			t0 := time.Now()
			vc := NewVC(p, specs, fn, con, mode)
			vc.Run()
			gen := time.Since(t0)
			if *dump != "" {
				for _, ob := range vc.obligations {
					if contains(ob.Name, *dump) {
						fmt.Println(vc.obligationScript(ob, true))
						return 0
					}
				}
				fmt.Fprintln(os.Stderr, "no such obligation")
				return 2
			}
			d := &Discharger{Timeout: *timeout, Workers: 6}
			t1 := time.Now()
			d.Discharge(vc, vc.obligations)
			total, ok, failed := summarize(vc.obligations)
			fmt.Printf("%s [%s]: %d/%d discharged (gen %.2fs, solve %.2fs)\n", name, m, ok, total, gen.Seconds(), time.Since(t1).Seconds())
			for _, u := range vc.unsupported {
				fmt.Println("  UNSUPPORTED:", u)
				rc = 2
			}
			if vacuousFunction(vc.obligations) {
				fmt.Println("  VACUOUS: no exit of the function is reachable under its preconditions and invariants")
				rc = 1
			}
			for _, ob := range vc.obligations {
				if ob.Cover {
					if *verbose {
						fmt.Println("  cover ", shortStatus(ob))
					}
					continue
				}
				if *verbose && ob.Res.Status == "unsat" {
					fmt.Println("  ok    ", shortStatus(ob))
				}
			}
			for _, ob := range failed {
				fmt.Println("  FAILED", shortStatus(ob))
				if ob.Res.Status == "error" {
					fmt.Println(indent(firstLines(ob.Res.Output, 5), 6))
				}
				rc = 1
			}
			for _, a := range sortedKeys(vc.assumptions) {
				if *verbose {
					fmt.Println("  assume:", a)
				}
			}
		}
	}
	return rc
}

func contains(s, sub string) bool {
	return len(sub) == 0 || (len(s) >= len(sub) && (indexOf(s, sub) >= 0))
}

func indexOf(s, sub string) int {
	for i := 0; i+len(sub) <= len(s); i++ {
		if s[i:i+len(sub)] == sub {
			return i
		}
	}
	return -1
}

// vacuousFunction: every cover query (one per return / exit point) is unsat.
func vacuousFunction(obs []*Obligation) bool {
	n, dead := 0, 0
	// a loop under invariants none of whose back edges can be taken proves its inv-steps vacuously
	// (a single dead back edge is normal: the jump after a noreturn call)
	live := map[int]bool{}
	seen := map[int]bool{}
	for _, ob := range obs {
		if ob.Cover && ob.BackEdge {
			seen[ob.LoopHdr] = true
			if ob.Res.Status != "unsat" {
				live[ob.LoopHdr] = true
			}
		}
	}
	for h := range seen {
		if !live[h] {
			return true
		}
	}
	for _, ob := range obs {
		if ob.Cover && ob.BackEdge {
			continue
		}
		if ob.Cover {
			n++
			if ob.Res.Status == "unsat" {
				dead++
			}
		}
	}
	return n > 0 && dead == n
}

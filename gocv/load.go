package main

import (
	"fmt"
	"go/token"
	"go/types"
	"os"
	"sort"
	"strings"

	"golang.org/x/tools/go/packages"
	"golang.org/x/tools/go/ssa"
	"golang.org/x/tools/go/ssa/ssautil"
)

// Program is the loaded repository: typed syntax + SSA of every package in the
// module and of its dependencies (dependencies are needed for verified-external
// bodies such as syscall.WaitStatus methods).
type Program struct {
	Dir   string
	Pkgs  []*packages.Package
	SSA   *ssa.Program
	Funcs map[string]*ssa.Function // by qualified name
	// Frozen: package-level variables of the module that are written only by their
	// package's initialisation and whose address does not escape.
	Frozen map[*ssa.Global]bool
}

const modPath = "github.com/criyle/go-sandbox"

func repoDir() string {
	if d := os.Getenv("GOCV_REPO"); d != "" {
		return d
	}
	return "/repo"
}

func LoadProgram(dir string) (*Program, error) {
	// go/packages looks "go" up in this process's PATH: use the toolchain that can
	// type-check the repository's go 1.25 standard library.
	os.Setenv("PATH", "/opt/veriftools/go1.26.8/bin:"+os.Getenv("PATH"))
	os.Setenv("GOTOOLCHAIN", "local")
	cfg := &packages.Config{
		Mode:       packages.LoadAllSyntax,
		Dir:        dir,
		Env: append(os.Environ(), "GOOS=linux", "GOARCH=amd64", "GOFLAGS=-mod=mod", "GOPROXY=off", "GOSUMDB=off", "CGO_ENABLED=0",
			"GOTOOLCHAIN=local", "PATH=/opt/veriftools/go1.26.8/bin:"+os.Getenv("PATH")),
		BuildFlags: []string{"-tags=verif"},
	}
	pkgs, err := packages.Load(cfg, "./...")
	if err != nil {
		return nil, err
	}
	var errs []string
	for _, p := range pkgs {
		for _, e := range p.Errors {
			errs = append(errs, e.Error())
		}
	}
	if len(errs) > 0 {
		return nil, fmt.Errorf("load errors:\n%s", strings.Join(errs, "\n"))
	}
	prog, _ := ssautil.AllPackages(pkgs, ssa.InstantiateGenerics|ssa.GlobalDebug)
	prog.Build()
	p := &Program{Dir: dir, Pkgs: pkgs, SSA: prog, Funcs: map[string]*ssa.Function{}}
	for fn := range ssautil.AllFunctions(prog) {
		p.Funcs[FuncName(fn)] = fn
	}
	p.computeFrozen()
	return p, nil
}

// FuncName gives the stable name used in contracts and obligation names:
// pkgpath.Func, pkgpath.(*T).Method, pkgpath.(T).Method, parent$N for closures.
// The module prefix is dropped for repository packages.
func FuncName(fn *ssa.Function) string {
	if fn.Parent() != nil {
		// closure: name is like handleExecve$1
		return FuncName(fn.Parent()) + strings.TrimPrefix(fn.Name(), fn.Parent().Name())
	}
	pkg := ""
	if fn.Pkg != nil {
		pkg = shortPkg(fn.Pkg.Pkg.Path())
	} else if fn.Object() != nil && fn.Object().Pkg() != nil {
		pkg = shortPkg(fn.Object().Pkg().Path())
	}
	if recv := fn.Signature.Recv(); recv != nil {
		t := recv.Type()
		ptr := ""
		if pt, ok := t.(*types.Pointer); ok {
			t = pt.Elem()
			ptr = "*"
		}
		tn := t.String()
		if n, ok := t.(*types.Named); ok {
			tn = n.Obj().Name()
			if n.Obj().Pkg() != nil {
				pkg = shortPkg(n.Obj().Pkg().Path())
			}
		}
		return fmt.Sprintf("%s.(%s%s).%s", pkg, ptr, tn, fn.Name())
	}
	return pkg + "." + fn.Name()
}

func shortPkg(path string) string {
	if path == modPath {
		return "."
	}
	return strings.TrimPrefix(path, modPath+"/")
}

func (p *Program) FindFuncs(pat string) []*ssa.Function {
	var out []*ssa.Function
	for n, f := range p.Funcs {
		if n == pat || strings.HasSuffix(n, pat) {
			out = append(out, f)
		}
	}
	sort.Slice(out, func(i, j int) bool { return FuncName(out[i]) < FuncName(out[j]) })
	return out
}

func isInitFunc(fn *ssa.Function) bool {
	return fn.Name() == "init" || strings.HasPrefix(fn.Name(), "init#")
}

func (p *Program) computeFrozen() {
	p.Frozen = map[*ssa.Global]bool{}
	notFrozen := map[*ssa.Global]bool{}
	var all []*ssa.Global
	for _, pkg := range p.SSA.AllPackages() {
		if !strings.HasPrefix(pkg.Pkg.Path(), modPath) {
			continue
		}
		for _, m := range pkg.Members {
			if g, ok := m.(*ssa.Global); ok {
				all = append(all, g)
			}
		}
	}
	// a derived address is "read-only used" if it is only loaded from, indexed further, or
	// converted to unsafe.Pointer (handed to the kernel)
	var readOnly func(v ssa.Value, depth int) bool
	readOnly = func(v ssa.Value, depth int) bool {
		if depth > 6 {
			return false
		}
		refs := v.Referrers()
		if refs == nil {
			return true
		}
		for _, r := range *refs {
			switch r := r.(type) {
			case *ssa.UnOp:
				if r.Op != token.MUL {
					return false
				}
			case *ssa.FieldAddr:
				if !readOnly(r, depth+1) {
					return false
				}
			case *ssa.IndexAddr:
				if r.X != v || !readOnly(r, depth+1) {
					return false
				}
			case *ssa.Convert:
				// to unsafe.Pointer
			case *ssa.DebugRef:
			case *ssa.Store:
				if r.Addr == v {
					return false
				}
				return false // address stored somewhere: escapes
			default:
				return false
			}
		}
		return true
	}
	for _, fn := range p.Funcs {
		if fn.Pkg == nil && fn.Parent() == nil {
			continue
		}
		for _, b := range fn.Blocks {
			for _, ins := range b.Instrs {
				for _, op := range ins.Operands(nil) {
					g, ok := (*op).(*ssa.Global)
					if !ok {
						continue
					}
					inInit := isInitFunc(fn) && fn.Pkg == g.Pkg
					switch r := ins.(type) {
					case *ssa.Store:
						if r.Addr == g && inInit {
							continue
						}
						notFrozen[g] = true
					case *ssa.UnOp:
						if r.Op != token.MUL {
							notFrozen[g] = true
						}
					case *ssa.FieldAddr, *ssa.IndexAddr:
						if inInit {
							continue
						}
						if !readOnly(ins.(ssa.Value), 0) {
							notFrozen[g] = true
						}
					case *ssa.Convert, *ssa.DebugRef:
					default:
						notFrozen[g] = true
					}
				}
			}
		}
	}
	for _, g := range all {
		if !notFrozen[g] {
			p.Frozen[g] = true
		}
	}
}

package main

import (
	"fmt"
	"go/types"
	"strings"
	"time"
)

// Replay harness "search": for a failed obligation of a function whose parameters (and receiver) are
// scalars, strings or byte slices. Quantified obligations rarely give a solver model, so this harness does
// not need one: it runs the REAL function (go test -overlay, nothing is written to the repository) on every
// combination of small inputs - byte slices and strings of length <= 3 over a small alphabet, integers from a
// short list - and evaluates the failed postcondition, translated to Go, on the real result. The first input
// on which the real code falsifies the postcondition, or panics (for the generated safety obligations), is the
// failing input that is reported and recorded in the replay file. Exhaustive within the stated domain,
// silent outside it: "not found" never means the obligation holds.

func init() {
	searchHarness = &replayHarness{Name: "search", Match: searchMatch, Run: searchRun}
}

var searchHarness *replayHarness

func isByteSlice(t types.Type) bool {
	s, ok := t.Underlying().(*types.Slice)
	if !ok {
		return false
	}
	b, ok := s.Elem().Underlying().(*types.Basic)
	return ok && b.Kind() == types.Uint8
}

func isString(t types.Type) bool {
	b, ok := t.Underlying().(*types.Basic)
	return ok && b.Kind() == types.String
}

var safetyKinds = map[string]bool{"index": true, "slice": true, "nil": true, "div0": true, "typeassert": true}

func searchMatch(vc *VC, ob *Obligation) bool {
	fn := vc.fn
	if fn == nil || fn.Pkg == nil || fn.Pkg.Pkg == nil || !strings.HasPrefix(fn.Pkg.Pkg.Path()+"/", modulePrefix) {
		return false
	}
	if len(fn.FreeVars) > 0 || len(fn.Params) == 0 || len(fn.Params) > 3 {
		return false
	}
	if !(safetyKinds[ob.Kind] || scalarClause(vc, ob) != nil) {
		return false
	}
	nonScalar := false
	for _, p := range fn.Params {
		if p.Name() == "_" || p.Name() == "" {
			return false
		}
		switch {
		case isScalar(p.Type()):
		case isString(p.Type()), isByteSlice(p.Type()):
			nonScalar = true
		default:
			return false
		}
	}
	return nonScalar // all-scalar functions belong to the "scalar" harness
}

// trSearch extends the scalar translation with what postconditions over slices and strings use.
func (g *goTr) trq(e SExpr) (string, error) {
	switch x := e.(type) {
	case *SLit:
		switch x.Kind {
		case "string":
			return fmt.Sprintf("%q", x.Val), nil
		case "nil":
			return "nil", nil
		}
		return g.tr(e)
	case *SIdent:
		if g.inOld {
			if v, ok := g.names["old:"+x.Name]; ok {
				return v, nil
			}
		}
		return g.tr(e)
	case *SOld:
		saved := g.inOld
		g.inOld = true
		s, err := g.trq(x.X)
		g.inOld = saved
		return s, err
	case *SIndex:
		a, err := g.trq(x.X)
		if err != nil {
			return "", err
		}
		i, err := g.trq(x.I)
		if err != nil {
			return "", err
		}
		return a + "[" + i + "]", nil
	case *SSliceX:
		a, err := g.trq(x.X)
		if err != nil {
			return "", err
		}
		lo, hi := "", ""
		if x.Lo != nil {
			if lo, err = g.trq(x.Lo); err != nil {
				return "", err
			}
		}
		if x.Hi != nil {
			if hi, err = g.trq(x.Hi); err != nil {
				return "", err
			}
		}
		return a + "[" + lo + ":" + hi + "]", nil
	case *SUnary:
		a, err := g.trq(x.X)
		if err != nil {
			return "", err
		}
		if x.Op == "!" || x.Op == "-" {
			return "(" + x.Op + a + ")", nil
		}
		return "", fmt.Errorf("unary %s", x.Op)
	case *SBinary:
		a, err := g.trq(x.X)
		if err != nil {
			return "", err
		}
		b, err := g.trq(x.Y)
		if err != nil {
			return "", err
		}
		switch x.Op {
		case "==>":
			return "(!(" + a + ") || (" + b + "))", nil
		case "<==>":
			return "((" + a + ") == (" + b + "))", nil
		case "&&", "||", "==", "!=", "<", "<=", ">", ">=", "+", "-", "*", "/", "%", "&", "|", "^", "<<", ">>":
			return "(" + a + " " + x.Op + " " + b + ")", nil
		}
		return "", fmt.Errorf("operator %s", x.Op)
	case *SQuant:
		body, err := g.trq(x.Body)
		if err != nil {
			return "", err
		}
		// bound variables range over gocvLo..gocvHi (a window around every index that exists)
		s := body
		for i := len(x.Vars) - 1; i >= 0; i-- {
			v := x.Vars[i]
			if v.Type != "int" {
				return "", fmt.Errorf("quantifier over %s", v.Type)
			}
			q := "gocvAll"
			if !x.Forall {
				q = "gocvAny"
			}
			s = q + "(func(" + v.Name + " int) bool { return " + s + " })"
		}
		return s, nil
	case *SCall:
		if (x.Fn == "len" || x.Fn == "cap") && len(x.Args) == 1 {
			a, err := g.trq(x.Args[0])
			if err != nil {
				return "", err
			}
			return x.Fn + "(" + a + ")", nil
		}
		if convNames[x.Fn] && len(x.Args) == 1 {
			a, err := g.trq(x.Args[0])
			if err != nil {
				return "", err
			}
			return x.Fn + "(" + a + ")", nil
		}
		if x.Fn == "ite" && len(x.Args) == 3 {
			c, err := g.trq(x.Args[0])
			if err != nil {
				return "", err
			}
			a, err := g.trq(x.Args[1])
			if err != nil {
				return "", err
			}
			b, err := g.trq(x.Args[2])
			if err != nil {
				return "", err
			}
			return "gocvIte(" + c + ", " + a + ", " + b + ")", nil
		}
		return g.tr(e)
	}
	return g.tr(e)
}

func searchRun(vc *VC, ob *Obligation, _ map[string]string) (bool, map[string]any) {
	fn := vc.fn
	cl := scalarClause(vc, ob)
	detail := map[string]any{"harness": "search", "domain": "byte slices and strings of length <= 3 over {0,1,'/','*','a',0xff}; integers {0,1,2,3,-1,4095,4096,1<<31,-1<<63,1<<63-1} (cut to the type)"}
	rel := strings.TrimSuffix(strings.TrimPrefix(fn.Pkg.Pkg.Path()+"/", modulePrefix), "/")
	if rel == "" {
		rel = "."
	}
	g := &goTr{vc: vc, pkgName: fn.Pkg.Pkg.Name(), names: map[string]string{}}
	qual := types.RelativeTo(fn.Pkg.Pkg)
	var b strings.Builder
	fmt.Fprintf(&b, "package %s\n\nimport (\n\t\"fmt\"\n\t\"testing\"\n)\n\n", fn.Pkg.Pkg.Name())
	b.WriteString("func gocvIte[T any](c bool, a, b T) T {\n\tif c {\n\t\treturn a\n\t}\n\treturn b\n}\n\n")
	b.WriteString("const gocvLo, gocvHi = -2, 6\n")
	b.WriteString("func gocvAll(f func(int) bool) bool {\n\tfor k := gocvLo; k <= gocvHi; k++ {\n\t\tif !f(k) {\n\t\t\treturn false\n\t\t}\n\t}\n\treturn true\n}\n")
	b.WriteString("func gocvAny(f func(int) bool) bool {\n\tfor k := gocvLo; k <= gocvHi; k++ {\n\t\tif f(k) {\n\t\t\treturn true\n\t\t}\n\t}\n\treturn false\n}\n")
	b.WriteString("func gocvBytes() [][]byte {\n\tal := []byte{0, 1, '/', '*', 'a', 0xff}\n\tout := [][]byte{{}}\n\tlast := [][]byte{{}}\n\tfor n := 0; n < 3; n++ {\n\t\tvar next [][]byte\n\t\tfor _, p := range last {\n\t\t\tfor _, c := range al {\n\t\t\t\tq := append(append([]byte{}, p...), c)\n\t\t\t\tnext = append(next, q)\n\t\t\t}\n\t\t}\n\t\tout = append(out, next...)\n\t\tlast = next\n\t}\n\treturn out\n}\n")
	b.WriteString("var gocvInts = []int64{0, 1, 2, 3, -1, 4095, 4096, 1 << 31, -1 << 63, 1<<63 - 1}\n\n")
	b.WriteString("func TestGocvReplaySearch(t *testing.T) {\n\ttried := 0\n")
	var args []string
	recv := ""
	indent := "\t"
	closers := 0
	var show []string
	for i, p := range fn.Params {
		name := "in_" + sanitize(p.Name())
		ty := types.TypeString(p.Type(), qual)
		switch {
		case isByteSlice(p.Type()):
			fmt.Fprintf(&b, "%sfor _, src_%s := range gocvBytes() {\n", indent, name)
			g.names[p.Name()] = name
			g.names["old:"+p.Name()] = "src_" + name
		case isString(p.Type()):
			fmt.Fprintf(&b, "%sfor _, bs_%s := range gocvBytes() {\n%s\t%s := %s(bs_%s)\n", indent, name, indent, name, ty, name)
			g.names[p.Name()] = name
			g.names["old:"+p.Name()] = name
		default:
			ub := p.Type().Underlying().(*types.Basic)
			if ub.Info()&types.IsBoolean != 0 {
				fmt.Fprintf(&b, "%sfor _, %s := range []%s{false, true} {\n", indent, name, ty)
			} else {
				fmt.Fprintf(&b, "%sfor _, raw_%s := range gocvInts {\n%s\t%s := %s(raw_%s)\n", indent, name, indent, name, ty, name)
			}
			g.names[p.Name()] = name
			g.names["old:"+p.Name()] = name
		}
		closers++
		indent += "\t"
		show = append(show, name)
		if fn.Signature.Recv() != nil && i == 0 {
			recv = name
		} else {
			args = append(args, name)
		}
	}
	res := fn.Signature.Results()
	var rs []string
	for i := 0; i < res.Len(); i++ {
		r := fmt.Sprintf("r%d", i)
		rs = append(rs, r)
		g.names[fmt.Sprintf("result.%d", i)] = r
		if n := res.At(i).Name(); n != "" && n != "_" {
			g.names[n] = r
		}
	}
	if res.Len() == 1 {
		g.names["result"] = "r0"
	}
	post := "true"
	if cl != nil {
		var err error
		post, err = g.trq(cl.Expr)
		if err != nil {
			detail["status"] = "postcondition not translatable to Go: " + err.Error()
			return false, detail
		}
		detail["postcondition"] = cl.Text
	}
	call := fn.Name() + "(" + strings.Join(args, ", ") + ")"
	if recv != "" {
		call = recv + "." + call
	}
	var showFmt, showArgs []string
	for _, s := range show {
		showFmt = append(showFmt, s+"=%#v")
		showArgs = append(showArgs, s)
	}
	fmt.Fprintf(&b, "%sstop := func() (stop bool) {\n", indent)
	// fresh copies of the byte slices for every call (the function may write them)
	for _, p := range fn.Params {
		if isByteSlice(p.Type()) {
			name := "in_" + sanitize(p.Name())
			fmt.Fprintf(&b, "%s\t%s := append(%s{}, src_%s...)\n", indent, name, types.TypeString(p.Type(), qual), name)
		}
	}
	fmt.Fprintf(&b, "%s\ttried++\n", indent)
	fmt.Fprintf(&b, "%s\tdefer func() {\n%s\t\tif r := recover(); r != nil {\n%s\t\t\tfmt.Printf(\"GOCV-REPLAY panic=%%v inputs: %s\\n\", r, %s)\n%s\t\t\tstop = true\n%s\t\t}\n%s\t}()\n",
		indent, indent, indent, strings.Join(showFmt, " "), strings.Join(showArgs, ", "), indent, indent, indent)
	if len(rs) > 0 {
		fmt.Fprintf(&b, "%s\t%s := %s\n", indent, strings.Join(rs, ", "), call)
		for _, r := range rs {
			fmt.Fprintf(&b, "%s\t_ = %s\n", indent, r)
		}
	} else {
		fmt.Fprintf(&b, "%s\t%s\n", indent, call)
	}
	fmt.Fprintf(&b, "%s\tif holds := %s; !holds {\n%s\t\tfmt.Printf(\"GOCV-REPLAY holds=false inputs: %s results=%%#v\\n\", %s, []any{%s})\n%s\t\treturn true\n%s\t}\n%s\treturn false\n%s}()\n",
		indent, post, indent, strings.Join(showFmt, " "), strings.Join(showArgs, ", "), strings.Join(rs, ", "), indent, indent, indent, indent)
	fmt.Fprintf(&b, "%sif stop {\n%s\tfmt.Printf(\"GOCV-REPLAY tried=%%d\\n\", tried)\n%s\treturn\n%s}\n", indent, indent, indent, indent)
	for i := 0; i < closers; i++ {
		indent = indent[:len(indent)-1]
		fmt.Fprintf(&b, "%s}\n", indent)
	}
	b.WriteString("\tfmt.Printf(\"GOCV-REPLAY none tried=%d\\n\", tried)\n}\n")
	src := b.String()
	detail["test_source"] = src
	out, runErr := runOverlaySource(rel, src, "zz_gocv_replay_search_test.go", "TestGocvReplaySearch", 120*time.Second)
	detail["output"] = truncate(out, 4000)
	for _, l := range strings.Split(out, "\n") {
		if strings.HasPrefix(l, "GOCV-REPLAY holds=false") {
			detail["status"] = "confirmed: the real function falsifies the postcondition"
			detail["failing_input"] = strings.TrimPrefix(l, "GOCV-REPLAY holds=false ")
			return true, detail
		}
		if strings.HasPrefix(l, "GOCV-REPLAY panic=") {
			detail["status"] = "confirmed: the real function panics"
			detail["failing_input"] = strings.TrimPrefix(l, "GOCV-REPLAY ")
			return true, detail
		}
	}
	if strings.Contains(out, "GOCV-REPLAY none") {
		detail["status"] = "no failing input within the search domain (says nothing about inputs outside it)"
		return false, detail
	}
	detail["status"] = "search did not run"
	if runErr != nil {
		detail["status"] = "search did not run: " + runErr.Error()
	}
	return false, detail
}

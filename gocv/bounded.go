package main

import (
	"bytes"
	"context"
	"encoding/json"
	"fmt"
	"os"
	"os/exec"
	"path/filepath"
	"strings"
	"time"
)

// A bounded stand-in runs the real functions (through `go test -overlay`, which
// injects an in-package test without writing to the repository) over a stated
// finite space and compares against an independent oracle. Its results are
// reported under coverage.bounded and never counted as discharged obligations.

type BoundedFailure struct {
	Key    string `json:"key"`
	Detail string `json:"detail"`
}

type BoundedResult struct {
	Name        string
	Bound       string
	Evaluations int
	Distinct    int
	Exhaustive  bool
	Failures    []BoundedFailure
	Samples     []any
	Error       string
	Seconds     float64
	Assumptions []string
	Oracle      string
}

func (b *BoundedResult) Evidence() map[string]any {
	return map[string]any{
		"name": b.Name, "bound": b.Bound, "evaluations": b.Evaluations, "distinct_nontrivial": b.Distinct,
		"exhaustive_within_bound": b.Exhaustive, "failures": len(b.Failures), "samples": b.Samples,
		"oracle": b.Oracle, "seconds": round3(b.Seconds), "label": "bounded (not a proof; not counted in discharged)",
	}
}

type BoundedCheck struct {
	Name string
	Run  func(out *propOutcome) *BoundedResult
}

var boundedChecks = map[string][]*BoundedCheck{}

// runOverlayTest runs test functions from harness files inside a repository package.
// files: harness file name (under /verif/harness) -> file name inside the package.
func runOverlayTest(pkg string, files map[string]string, runPattern string, timeout time.Duration, env []string) (string, error) {
	dir := scratch()
	ov := map[string]map[string]string{"Replace": {}}
	for h, target := range files {
		src := filepath.Join(verifDir(), "harness", h)
		if _, err := os.Stat(src); err != nil {
			return "", fmt.Errorf("harness file %s missing", src)
		}
		ov["Replace"][filepath.Join(repoDir(), pkg, target)] = src
	}
	data, _ := json.Marshal(ov)
	ovFile := filepath.Join(dir, fmt.Sprintf("ov_%d.json", time.Now().UnixNano()))
	if err := os.WriteFile(ovFile, data, 0o644); err != nil {
		return "", err
	}
	defer os.Remove(ovFile)
	ctx, cancel := context.WithTimeout(context.Background(), timeout+30*time.Second)
	defer cancel()
	cmd := exec.CommandContext(ctx, "go", "test", "-overlay", ovFile, "-vet=off", "-count=1",
		"-timeout", fmt.Sprintf("%ds", int(timeout.Seconds())), "-run", runPattern, "-v", "./"+pkg)
	cmd.Dir = repoDir()
	cmd.Env = append(os.Environ(), "GOFLAGS=-mod=mod", "GOPROXY=off", "GOSUMDB=off", "GOTOOLCHAIN=local",
		"PATH=/opt/veriftools/go1.26.8/bin:"+os.Getenv("PATH"))
	cmd.Env = append(cmd.Env, env...)
	var out bytes.Buffer
	cmd.Stdout = &out
	cmd.Stderr = &out
	err := cmd.Run()
	return out.String(), err
}

// parseHarnessOutput understands the line protocol of the harness tests:
//   GOCV-STAT evaluations=<n> distinct=<m>
//   GOCV-FAIL <key> | <detail>
//   GOCV-SAMPLE <json>
func parseHarnessOutput(out string, r *BoundedResult) {
	for _, line := range strings.Split(out, "\n") {
		line = strings.TrimSpace(line)
		switch {
		case strings.HasPrefix(line, "GOCV-STAT "):
			var e, d int
			fmt.Sscanf(line, "GOCV-STAT evaluations=%d distinct=%d", &e, &d)
			r.Evaluations += e
			r.Distinct += d
		case strings.HasPrefix(line, "GOCV-FAIL "):
			parts := strings.SplitN(line[len("GOCV-FAIL "):], "|", 2)
			f := BoundedFailure{Key: strings.TrimSpace(parts[0])}
			if len(parts) > 1 {
				f.Detail = strings.TrimSpace(parts[1])
			}
			dup := false
			for _, g := range r.Failures {
				if g.Key == f.Key {
					dup = true // one report per key; the harness prints a few instances of each
				}
			}
			if !dup {
				r.Failures = append(r.Failures, f)
			}
		case strings.HasPrefix(line, "GOCV-SAMPLE "):
			if len(r.Samples) < 8 {
				var v any
				if json.Unmarshal([]byte(line[len("GOCV-SAMPLE "):]), &v) == nil {
					r.Samples = append(r.Samples, v)
				} else {
					r.Samples = append(r.Samples, line[len("GOCV-SAMPLE "):])
				}
			}
		}
	}
}

func writeBoundedReplay(out *propOutcome, b *BoundedResult, f BoundedFailure) violation {
	dir := replayDir()
	os.MkdirAll(dir, 0o755)
	file := filepath.Join(dir, fmt.Sprintf("%s_%s.json", out.ID, hashStr(b.Name+f.Key)))
	rep := map[string]any{"property": out.ID, "bounded_check": b.Name, "key": f.Key, "detail": f.Detail,
		"note": "failing case found by running the real code; re-run the check to replay"}
	data, _ := json.MarshalIndent(rep, "", " ")
	os.WriteFile(file, append(data, '\n'), 0o644)
	return violation{Obligation: b.Name + ":" + f.Key, Replay: file, NoInput: false, Detail: f.Detail}
}

// tryReplay replays a solver model on the real code. Returns whether the
// failure was confirmed and a description.
func tryReplay(vc *VC, ob *Obligation, inputs map[string]string) (bool, map[string]any) {
	return replayModel(vc, ob, inputs)
}

package main

import (
	"sort"
	"strings"
)

// Quantifier patterns. Auto-selected patterns proved unstable here (the solvers picked
// large terms such as a select on one particular version of a ghost array, which never occurs
// in the goal). For every bound variable the smallest non-arithmetic application that contains it
// (typically the address computation (elem base (+ off k)) or a select with k as index) is used
// as trigger; several candidates give alternative patterns.

type sx struct {
	atom string
	kids []*sx
	text string
}

func parseSx(s string) *sx {
	p := 0
	var rec func() *sx
	rec = func() *sx {
		for p < len(s) && s[p] == ' ' {
			p++
		}
		if p >= len(s) {
			return nil
		}
		start := p
		if s[p] == '(' {
			p++
			n := &sx{}
			for {
				for p < len(s) && s[p] == ' ' {
					p++
				}
				if p >= len(s) {
					break
				}
				if s[p] == ')' {
					p++
					break
				}
				k := rec()
				if k == nil {
					break
				}
				n.kids = append(n.kids, k)
			}
			n.text = s[start:p]
			return n
		}
		for p < len(s) && s[p] != ' ' && s[p] != ')' && s[p] != '(' {
			p++
		}
		return &sx{atom: s[start:p], text: s[start:p]}
	}
	return rec()
}

var nonTriggerHeads = map[string]bool{"+": true, "-": true, "*": true, "div": true, "mod": true, "<": true, "<=": true, ">": true, ">=": true,
	"=": true, "and": true, "or": true, "not": true, "=>": true, "ite": true, "forall": true, "exists": true, "distinct": true, "let": true,
	"bvadd": true, "bvsub": true, "bvmul": true, "bvult": true, "bvule": true, "bvslt": true, "bvsle": true, "bvugt": true, "bvuge": true, "bvsgt": true, "bvsge": true,
	"bvand": true, "bvor": true, "bvxor": true, "bvnot": true, "bvneg": true, "bvshl": true, "bvlshr": true, "bvashr": true, "!": true, "_": true}

// triggersFor returns alternative (multi-)patterns for the bound variables.
func triggersFor(body string, vars []string) [][]string {
	root := parseSx(body)
	if root == nil {
		return nil
	}
	isVar := map[string]bool{}
	for _, v := range vars {
		isVar[v] = true
	}
	// candidates per variable: minimal trigger-able applications containing it
	cands := map[string]map[string]bool{}
	var walk func(n *sx) map[string]bool // returns set of vars contained
	walk = func(n *sx) map[string]bool {
		if n.kids == nil {
			if isVar[n.atom] {
				return map[string]bool{n.atom: true}
			}
			return nil
		}
		if len(n.kids) > 0 && n.kids[0].kids == nil && (n.kids[0].atom == "forall" || n.kids[0].atom == "exists") {
			return nil // do not look into nested quantifiers
		}
		contained := map[string]bool{}
		coveredBelow := map[string]bool{}
		for i, k := range n.kids {
			if i == 0 && k.kids == nil {
				continue
			}
			sub := walk(k)
			for v := range sub {
				contained[v] = true
				// was v already covered by a candidate in this subtree?
				if k.kids != nil && cands[v] != nil {
					for c := range cands[v] {
						if strings.Contains(k.text, c) {
							coveredBelow[v] = true
						}
					}
				}
			}
		}
		head := ""
		if len(n.kids) > 0 && n.kids[0].kids == nil {
			head = n.kids[0].atom
		}
		if head != "" && !nonTriggerHeads[head] && !strings.HasPrefix(head, "(_") {
			for v := range contained {
				if !coveredBelow[v] {
					if cands[v] == nil {
						cands[v] = map[string]bool{}
					}
					cands[v][n.text] = true
				}
			}
		}
		return contained
	}
	walk(root)
	for _, v := range vars {
		if len(cands[v]) == 0 {
			return nil
		}
	}
	if len(vars) == 1 {
		var out [][]string
		var cs []string
		for c := range cands[vars[0]] {
			cs = append(cs, c)
		}
		sort.Strings(cs)
		for _, c := range cs {
			if len(out) < 4 {
				out = append(out, []string{c})
			}
		}
		return out
	}
	// several variables: one multi-pattern made of the first candidate of each variable
	var mp []string
	seen := map[string]bool{}
	for _, v := range vars {
		var cs []string
		for c := range cands[v] {
			cs = append(cs, c)
		}
		sort.Strings(cs)
		// prefer a candidate that covers other variables too
		pick := cs[0]
		for _, c := range cs {
			if len(c) < len(pick) {
				pick = c
			}
		}
		if !seen[pick] {
			seen[pick] = true
			mp = append(mp, pick)
		}
	}
	return [][]string{mp}
}

// withPatterns annotates a quantifier body.
func withPatterns(body Term, vars []Term) Term {
	var names []string
	for _, v := range vars {
		names = append(names, v.S)
	}
	trig := triggersFor(body.S, names)
	if len(trig) == 0 {
		return body
	}
	var b strings.Builder
	b.WriteString("(! ")
	b.WriteString(body.S)
	for _, mp := range trig {
		b.WriteString(" :pattern (")
		b.WriteString(strings.Join(mp, " "))
		b.WriteString(")")
	}
	b.WriteString(")")
	return Term{b.String(), SBool}
}

package main

import (
	"fmt"
	"regexp"
	"go/token"
	"go/types"
	"math/big"
	"sort"
	"strings"

	"golang.org/x/tools/go/ssa"
)

// State maps state-variable names (memory arrays, ghost variables, $alloc) to
// their current SMT term. A missing entry means "value at function entry".
type State map[string]Term

func (s State) get(vc *VC, name string) Term {
	if t, ok := s[name]; ok {
		return t
	}
	return vc.entryTerm(name)
}

func (s State) clone() State {
	c := make(State, len(s))
	for k, v := range s {
		c[k] = v
	}
	return c
}

type Obligation struct {
	Name   string
	Kind   string
	Func   string
	Text   string
	Props  []string
	Mode   string
	Pos    string
	nLines int
	Group  string
	nStart int // first line of the region (function entry or enclosing loop header) whose assumptions are visible
	Guard  Term
	Cond   Term
	Res    SolverResult
	Cover  bool // a cover query: expected sat
	BackEdge bool // cover of a loop back edge
	LoopHdr  int  // header block of that loop
	Canary bool // expected to fail (sat/unknown), never unsat
	Cross  []SolverResult // thorough tier: answers of the other solver families, each run alone
}

type ghostInfo struct {
	name      string
	stateName string
	ty        *SpecTy
}

// VC is the verification-condition generator for one function in one arithmetic mode.
type VC struct {
	prog  *Program
	specs *Specs
	fn    *ssa.Function
	con   *Contract
	mode  Mode

	tinfo      map[types.Type]*typeInfo
	declared   map[string]bool
	typeDecls  []string
	needOpaque bool
	needBitFns bool

	stateSort  map[string]Sort
	stateOrder []string
	lines      []string
	nfresh     int
	inQuant    int

	strLits   map[string]Term
	strOrder  []string
	typeIDs   map[string]int
	globalIDs map[*ssa.Global]int
	funcIDs   map[*ssa.Function]int
	ghosts    map[string]*ghostInfo
	usedFns   map[string]bool
	fnDefs    []string
	asserted  map[string]bool

	obligations []*Obligation
	obNames     map[string]int
	unsupported []string
	assumptions map[string]bool // trusted / assumed / model / unknown-external entries used
	calleesUsed map[string]string
	instrMods   map[ssa.Instruction]map[string]bool // pass-1 result
	pass        int
	closures    map[ssa.Value]*ssa.MakeClosure
	warnings    []string

	usedGlobals   map[*ssa.Global]bool
	preExisting   map[string]bool
	notes         map[string]bool
	topFrame      *frame
	topLocs       []locSpec
	callsiteHits  map[string]int
	closureFrames map[*ssa.MakeClosure]*frame
	inlineStack   []ssa.Instruction
	needStrLess   bool
	needSubstr    bool
	needStrOf     bool
	entryLines    int
	regionStart   int
	curClosure    *ssa.MakeClosure
	regionAncestors map[int][][2]int // region start line -> line ranges of the enclosing loop headers' assumptions
	curGroup      string
	noSlice       bool
}

func NewVC(prog *Program, specs *Specs, fn *ssa.Function, con *Contract, mode Mode) *VC {
	vc := &VC{prog: prog, specs: specs, fn: fn, con: con, mode: mode}
	vc.reset()
	vc.instrMods = map[ssa.Instruction]map[string]bool{}
	return vc
}

func (vc *VC) reset() {
	if vc.tinfo == nil {
		// type representations and state variables persist across the two passes
		vc.tinfo = map[types.Type]*typeInfo{}
		vc.declared = map[string]bool{}
		vc.typeDecls = nil
		vc.stateSort = map[string]Sort{}
		vc.stateOrder = nil
	}
	vc.lines = nil
	vc.nfresh = 0
	vc.strLits = map[string]Term{}
	vc.strOrder = nil
	vc.typeIDs = map[string]int{}
	vc.globalIDs = map[*ssa.Global]int{}
	vc.funcIDs = map[*ssa.Function]int{}
	vc.ghosts = map[string]*ghostInfo{}
	vc.usedFns = map[string]bool{}
	vc.fnDefs = nil
	vc.asserted = map[string]bool{}
	vc.obligations = nil
	vc.obNames = map[string]int{}
	vc.unsupported = nil
	vc.assumptions = map[string]bool{}
	vc.calleesUsed = map[string]string{}
	vc.closures = map[ssa.Value]*ssa.MakeClosure{}
	vc.warnings = nil
	vc.topFrame = nil
	vc.regionStart = 0
	vc.regionAncestors = map[int][][2]int{}
	vc.entryLines = 0
	vc.usedGlobals = map[*ssa.Global]bool{}
	vc.preExisting = map[string]bool{}
	vc.notes = map[string]bool{}
	vc.topLocs = nil
	vc.callsiteHits = map[string]int{}
	vc.closureFrames = map[*ssa.MakeClosure]*frame{}
	vc.inlineStack = nil
	vc.registerState("$alloc", SInt)
}

func (vc *VC) unsupp(f string, a ...any) {
	msg := fmt.Sprintf(f, a...)
	for _, u := range vc.unsupported {
		if u == msg {
			return
		}
	}
	vc.unsupported = append(vc.unsupported, msg)
}

func (vc *VC) warn(f string, a ...any) {
	vc.warnings = append(vc.warnings, fmt.Sprintf(f, a...))
}

// ---- script assembly ----

func (vc *VC) emit(line string) { vc.lines = append(vc.lines, line) }

func (vc *VC) assume(t Term) {
	if t.S == "true" {
		return
	}
	vc.emit("(assert " + t.S + ")")
}

// assumePath: an assumption that is conditional on the path taken so far (a callee's
// postcondition, a loop invariant at its header). Regions that start at a later loop
// header do not see it (modular loop verification): marked with a trailing comment.
// assumeHdr: a loop invariant assumed at its header; kept in later regions (it is guarded by
// the header's own reachability boolean, which inner loops imply).
func (vc *VC) assumeHdr(t Term, group string) {
	if t.S == "true" {
		return
	}
	if group != "" {
		vc.emit("(assert " + t.S + ") ;hdr;g=" + group)
		return
	}
	vc.emit("(assert " + t.S + ") ;hdr")
}

func (vc *VC) assumePath(t Term) {
	if t.S == "true" {
		return
	}
	vc.emit("(assert " + t.S + ") ;path")
}

// assumeOnce adds a ground fact once.
func (vc *VC) assumeOnce(t Term) {
	if t.S == "true" || vc.asserted[t.S] {
		return
	}
	vc.asserted[t.S] = true
	vc.assume(t)
}

func (vc *VC) freshName(hint string) string {
	vc.nfresh++
	return fmt.Sprintf("%s_%d", sanitize(hint), vc.nfresh)
}

func (vc *VC) freshConst(hint string, sort Sort) Term {
	n := vc.freshName(hint)
	vc.emit(fmt.Sprintf("(declare-const %s %s)", n, sort))
	return Term{n, sort}
}

func (vc *VC) define(hint string, t Term) Term {
	if len(t.S) < 24 && !strings.Contains(t.S, " ") {
		return t // atoms stay as they are
	}
	n := vc.freshName(hint)
	if t.Sort == SInt && vc.inQuant == 0 {
		// integer values are named by a constant with a defining equation rather than a macro: the
		// solver then keeps index terms such as (+ off i) in the shape the quantifier patterns expect
		vc.emit(fmt.Sprintf("(declare-const %s %s)", n, t.Sort))
		vc.emit(fmt.Sprintf("(assert (= %s %s))", n, t.S))
		return Term{n, t.Sort}
	}
	vc.emit(fmt.Sprintf("(define-fun %s () %s %s)", n, t.Sort, t.S))
	return Term{n, t.Sort}
}

func (vc *VC) registerState(name string, sort Sort) {
	if _, ok := vc.stateSort[name]; !ok {
		vc.stateSort[name] = sort
		vc.stateOrder = append(vc.stateOrder, name)
	}
}

// memRanges: int mode only. name -> (bits, signed) for integer memory arrays.
func (vc *VC) memRangeAxiom(name string, arr Term) string {
	if vc.mode != ModeInt || !strings.HasPrefix(name, "Mem_") {
		return ""
	}
	key := strings.TrimPrefix(name, "Mem_")
	kinds := map[string][2]int{"int": {64, 1}, "int8": {8, 1}, "int16": {16, 1}, "int32": {32, 1}, "int64": {64, 1},
		"uint": {64, 0}, "uint8": {8, 0}, "uint16": {16, 0}, "uint32": {32, 0}, "uint64": {64, 0}, "uintptr": {64, 0}}
	k, ok := kinds[key]
	if !ok {
		return ""
	}
	r := Term{"qmr", SRef}
	return "(assert " + Forall([]Term{r}, vc.inRange(Select(arr, r, SInt), k[0], k[1] == 1)).S + ")"
}

// freshState havocs a state variable (a new SMT constant with the type invariant of its cells).
func (vc *VC) freshState(name string) Term {
	t := vc.freshConst(stateSym(name), vc.stateSort[name])
	if ax := vc.memRangeAxiom(name, t); ax != "" {
		vc.emit(ax)
	}
	return t
}

func (vc *VC) entryTerm(name string) Term {
	s, ok := vc.stateSort[name]
	if !ok {
		panic("unregistered state variable " + name)
	}
	return Term{stateSym(name) + "_0", s}
}

func stateSym(name string) string {
	return "st_" + sanitize(strings.ReplaceAll(name, "$", "S"))
}

func (vc *VC) script(nLines int, tail string) string {
	return vc.scriptSliced(nLines, tail, "", false)
}

// scriptRegion: loops are verified modularly. An obligation sees the global facts (parameter
// invariants, preconditions: the lines up to entryLines), the declarations and definitions made
// before its region, and every line of its region (from the enclosing loop header on).
// Assumptions made before the loop header are dropped: what the body needs must be in the invariant.
func (vc *VC) scriptRegion(nStart, nLines int, tail string) string {
	return vc.scriptRegionSliced(nStart, nLines, tail, "")
}

// scriptRegionGroup additionally drops the assumptions that belong to another proof group:
// clauses may be tagged %group; an obligation of group G sees the untagged assumptions and those
// of G only (fewer assumptions: always sound; it keeps unrelated quantified invariants out of the way).
func (vc *VC) scriptRegionGroup(nStart, nLines int, tail string, group string) string {
	s := vc.scriptRegionSliced(nStart, nLines, tail, "")
	if group == "" || !strings.Contains(s, ";g=") {
		return s // an untagged obligation sees every assumption
	}
	var b strings.Builder
	for _, l := range strings.Split(s, "\n") {
		if i := strings.LastIndex(l, ";g="); i >= 0 {
			if g := strings.TrimSpace(l[i+3:]); g != group {
				continue
			}
		}
		b.WriteString(l)
		b.WriteByte('\n')
	}
	return b.String()
}

func (vc *VC) scriptRegionSliced(nStart, nLines int, tail string, seed string) string {
	if nStart > nLines {
		nStart = 0
	}
	if nStart <= vc.entryLines {
		return vc.scriptSliced(nLines, tail, seed, seed != "")
	}
	var keep []string
	keep = append(keep, vc.lines[:vc.entryLines]...)
	anc := vc.regionAncestors[nStart]
	for i, l := range vc.lines[vc.entryLines:nStart] {
		if strings.HasSuffix(l, ";path") {
			continue
		}
		if strings.Contains(l, ";hdr") {
			// header assumptions of loops that do not enclose this region are of no use here
			ln := vc.entryLines + i
			inAnc := false
			for _, r := range anc {
				if ln >= r[0] && ln < r[1] {
					inAnc = true
				}
			}
			if !inAnc {
				continue
			}
		}
		keep = append(keep, l)
	}
	keep = append(keep, vc.lines[nStart:nLines]...)
	if seed != "" {
		keep = vc.sliceLines(keep, seed)
	}
	return vc.scriptLines(keep, tail)
}

func (vc *VC) scriptSliced(nLines int, tail string, seed string, slice bool) string {
	lines := vc.lines[:nLines]
	if slice {
		lines = vc.sliceLines(lines, seed)
	}
	return vc.scriptLines(lines, tail)
}

func (vc *VC) scriptLines(lines []string, tail string) string {
	var b strings.Builder
	b.WriteString(vc.preamble())
	for _, d := range vc.typeDecls {
		b.WriteString(d)
		b.WriteByte('\n')
	}
	if vc.needBitFns {
		for _, f := range []string{"bitand_", "bitor_", "bitxor_", "bitandnot_", "shl_", "shr_"} {
			fmt.Fprintf(&b, "(declare-fun %s (Int Int) Int)\n", f)
		}
	}
	if vc.needStrLess {
		b.WriteString("(declare-fun str.lt_ (Str Str) Bool)\n")
	}
	if vc.needSubstr {
		fmt.Fprintf(&b, "(declare-fun str.sub_ (Str %s %s) Str)\n", vc.idxSort(), vc.idxSort())
	}
	for _, n := range vc.stateOrder {
		fmt.Fprintf(&b, "(declare-const %s_0 %s)\n", stateSym(n), vc.stateSort[n])
		if ax := vc.memRangeAxiom(n, Term{stateSym(n) + "_0", vc.stateSort[n]}); ax != "" {
			b.WriteString(ax + "\n")
		}
		if n == "Mem_ptr" {
			// whatever a cell of the entry memory points to was allocated before entry
			fmt.Fprintf(&b, "(assert (forall ((r Ref)) (! (< (root (select %s_0 r)) st_Salloc_0) :pattern ((select %s_0 r)))))\n", stateSym(n), stateSym(n))
		}
	}
	for _, s := range vc.strOrder {
		fmt.Fprintf(&b, "(declare-const %s Str)\n", vc.strLits[s].S)
		fmt.Fprintf(&b, "(assert (= (str.len_ %s) %s))\n", vc.strLits[s].S, vc.idxLit(int64(len(s))).S)
		for i := 0; i < len(s) && i < 24; i++ {
			fmt.Fprintf(&b, "(assert (= (str.at_ %s %s) %s))\n", vc.strLits[s].S, vc.idxLit(int64(i)).S, vc.intLit(big.NewInt(int64(s[i])), 8).S)
		}
	}
	if len(vc.strOrder) > 1 {
		b.WriteString("(assert (distinct")
		for _, s := range vc.strOrder {
			b.WriteString(" " + vc.strLits[s].S)
		}
		b.WriteString("))\n")
	}
	for _, d := range vc.fnDefs {
		b.WriteString(d)
		b.WriteByte('\n')
	}
	for _, l := range lines {
		b.WriteString(l)
		b.WriteByte('\n')
	}
	b.WriteString(tail)
	return b.String()
}

func (vc *VC) strLitTerm(s string) Term {
	if t, ok := vc.strLits[s]; ok {
		return t
	}
	t := Term{fmt.Sprintf("strlit_%d", len(vc.strOrder)), SStr}
	vc.strLits[s] = t
	vc.strOrder = append(vc.strOrder, s)
	return t
}

func (vc *VC) typeID(t types.Type) int {
	k := t.String()
	if id, ok := vc.typeIDs[k]; ok {
		return id
	}
	id := len(vc.typeIDs) + 1
	vc.typeIDs[k] = id
	return id
}

func (vc *VC) globalRef(g *ssa.Global) Term {
	id, ok := vc.globalIDs[g]
	if !ok {
		id = len(vc.globalIDs)
		vc.globalIDs[g] = id
	}
	t := Term{fmt.Sprintf("(glob %d)", id), SRef}
	vc.assumeOnce(Eq(App(SInt, "root", t), IntLit(int64(-2-id))))
	return t
}

func (vc *VC) funcRef(f *ssa.Function) Term {
	id, ok := vc.funcIDs[f]
	if !ok {
		id = len(vc.funcIDs)
		vc.funcIDs[f] = id
	}
	return Term{fmt.Sprintf("(glob %d)", 1000000+id), SRef}
}

// ---- ghost variables and spec functions ----

func (vc *VC) ghostVar(name string) *ghostInfo {
	if g, ok := vc.ghosts[name]; ok {
		return g
	}
	for _, gv := range vc.specs.Ghosts {
		if gv.Name == name {
			ty := vc.parseSpecType(gv.Type, vc.fnPkg())
			g := &ghostInfo{name: name, stateName: "G." + name, ty: ty}
			vc.registerState(g.stateName, vc.specSort(ty))
			vc.ghosts[name] = g
			return g
		}
	}
	return nil
}

func (vc *VC) fnPkg() *types.Package {
	if vc.fn == nil {
		return nil
	}
	if vc.fn.Pkg != nil {
		return vc.fn.Pkg.Pkg
	}
	if vc.fn.Object() != nil {
		return vc.fn.Object().Pkg()
	}
	return nil
}

func (vc *VC) useSpecFn(name string, pkg *types.Package) {
	if vc.usedFns[name] {
		return
	}
	vc.usedFns[name] = true
	fn := vc.specs.Fns[name]
	var params []string
	env := &Env{vc: vc, bound: map[string]TV{}, state: State{}, pkg: pkg}
	for _, p := range fn.Params {
		ty := vc.parseSpecType(p.Type, pkg)
		pn := "p_" + sanitize(p.Name)
		params = append(params, fmt.Sprintf("(%s %s)", pn, vc.specSort(ty)))
		env.bound[p.Name] = TV{T: Term{pn, vc.specSort(ty)}, Ty: ty}
	}
	// heap-dependent function: the memory arrays it reads are extra parameters
	for _, rn := range fn.Reads {
		srt := vc.memSortByName(rn)
		vc.registerState(rn, srt)
		hp := "h_" + stateSym(rn)
		params = append(params, fmt.Sprintf("(%s %s)", hp, srt))
		env.state[rn] = Term{hp, srt}
	}
	rt := vc.parseSpecType(fn.Result, pkg)
	sym := "sf_" + sanitize(name)
	if fn.Body == nil {
		if len(fn.Params) == 0 {
			vc.fnDefs = append(vc.fnDefs, fmt.Sprintf("(declare-const %s %s)", sym, vc.specSort(rt)))
			return
		}
		var ps []string
		for _, p := range fn.Params {
			ps = append(ps, string(vc.specSort(vc.parseSpecType(p.Type, pkg))))
		}
		vc.fnDefs = append(vc.fnDefs, fmt.Sprintf("(declare-fun %s (%s) %s)", sym, strings.Join(ps, " "), vc.specSort(rt)))
		return
	}
	// reserve a slot so that callees used in the body are defined before this one
	vc.inQuant++
	body := vc.materialize(vc.evalSpec(fn.Body, env), rt)
	vc.inQuant--
	kw := "define-fun"
	if fn.Rec {
		kw = "define-fun-rec"
	}
	vc.fnDefs = append(vc.fnDefs, fmt.Sprintf("(%s %s (%s) %s %s)", kw, sym, strings.Join(params, " "), vc.specSort(rt), body.T.S))
}

// memSortByName: the sort of a memory array given its name (Mem_<key>).
func (vc *VC) memSortByName(name string) Sort {
	if s, ok := vc.stateSort[name]; ok {
		return s
	}
	key := strings.TrimPrefix(name, "Mem_")
	switch key {
	case "string":
		return ArrSort(SRef, SStr)
	case "bool":
		return ArrSort(SRef, SBool)
	case "ptr", "map", "chan", "func":
		return ArrSort(SRef, SRef)
	case "slice":
		return ArrSort(SRef, SSlice)
	case "iface":
		return ArrSort(SRef, SIface)
	}
	bits := map[string]int{"int": 64, "int8": 8, "int16": 16, "int32": 32, "int64": 64, "uint": 64, "uint8": 8, "uint16": 16, "uint32": 32, "uint64": 64, "uintptr": 64}
	if b, ok := bits[key]; ok {
		return ArrSort(SRef, vc.intSort(b))
	}
	specFail("unknown memory array %q", name)
	return ""
}

// ---- memory ----

func (vc *VC) memName(ti *typeInfo) string {
	name := "Mem_" + ti.memKey
	vc.registerState(name, ArrSort(SRef, ti.sort))
	return name
}

// load reads a value of Go type t at ref in state st.
func (vc *VC) load(st State, ref Term, t types.Type) Term {
	ti := vc.info(t)
	switch ti.kind {
	case "struct":
		var fs []Term
		for i := 0; i < ti.st.NumFields(); i++ {
			fs = append(fs, vc.load(st, vc.fld(ref, i), ti.st.Field(i).Type()))
		}
		return vc.mkStruct(t, fs)
	case "array":
		n := ti.arr.Len()
		ei := vc.info(ti.arr.Elem())
		if n <= 8 {
			arr := Term{fmt.Sprintf("((as const %s) %s)", ti.sort, vc.zero(ti.arr.Elem()).S), ti.sort}
			for i := int64(0); i < n; i++ {
				arr = Store(arr, vc.idxLit(i), vc.load(st, vc.elem(ref, vc.idxLit(i)), ti.arr.Elem()))
			}
			return arr
		}
		if vc.inQuant > 0 {
			specFail("large array load inside quantifier")
		}
		if ei.kind == "struct" || ei.kind == "array" {
			vc.unsupp("load of large array of composite elements")
			return vc.freshConst("arrload", ti.sort)
		}
		a := vc.freshConst("arrload", ti.sort)
		q := Term{"qi", vc.idxSort()}
		vc.assume(Forall([]Term{q}, Eq(Select(a, q, ei.sort), Select(st.get(vc, vc.memName(ei)), vc.elem(ref, q), ei.sort))))
		return a
	case "tuple":
		vc.unsupp("load of tuple")
		return vc.freshConst("tupload", ti.sort)
	}
	v := Select(st.get(vc, vc.memName(ti)), ref, ti.sort)
	if vc.inQuant == 0 && vc.con != nil && vc.con.HasAssigns && vc.topFrame != nil && vc.fn != nil {
		// frame fact for this load: every store of the function under contract is checked against its
		// assigns clause (obligation kind "frame"), so a cell that existed at entry and is not listed
		// still holds its entry value, whatever loop headers havocked in between
		name := vc.memName(ti)
		cur, ent := st.get(vc, name), vc.entryTerm(name)
		if cur.S != ent.S {
			cond := Not(vc.inLocs(ref, name, vc.topLocs))
			if !vc.preExistingRef(ref) {
				cond = And(App(SBool, "<", vc.rootOf(ref), vc.topFrame.entryAlloc), cond)
			}
			vc.assumeOnce(Implies(cond, Eq(v, Select(ent, ref, ti.sort))))
			if cond.S == "true" && (ti.kind == "ref" || ti.kind == "slice") {
				vc.preExisting[v.S] = true
			}
		} else if (ti.kind == "ref" || ti.kind == "slice") && vc.preExistingRef(ref) {
			// a pointer found in a cell that existed at entry, unchanged since, points to something that existed at entry
			vc.preExisting[v.S] = true
		}
	}
	if vc.inQuant == 0 {
		inv := vc.typeInv(v, t)
		// what a cell points to was allocated before now; for the entry memory: before entry
		bound := st.get(vc, "$alloc")
		if name := vc.memName(ti); st.get(vc, name).S == vc.entryTerm(name).S && vc.preExistingRef(ref) {
			// (only for cells that themselves existed at entry: cells of objects allocated later
			// live in the same array version until first written)
			bound = vc.entryTerm("$alloc")
		}
		if ti.kind == "ref" {
			inv = And(inv, App(SBool, "<", App(SInt, "root", v), bound))
		}
		if ti.kind == "slice" {
			inv = And(inv, App(SBool, "<", App(SInt, "root", vc.sliceArr(v)), bound))
		}
		vc.assumeOnce(inv)
	}
	return v
}

// storeMem writes value v of Go type t at ref, updating st in place.
func (vc *VC) storeMem(st State, ref Term, t types.Type, v Term) {
	ti := vc.info(t)
	switch ti.kind {
	case "struct":
		for i := 0; i < ti.st.NumFields(); i++ {
			vc.storeMem(st, vc.fld(ref, i), ti.st.Field(i).Type(), vc.structField(v, t, i))
		}
		return
	case "array":
		n := ti.arr.Len()
		ei := vc.info(ti.arr.Elem())
		if n <= 8 {
			for i := int64(0); i < n; i++ {
				vc.storeMem(st, vc.elem(ref, vc.idxLit(i)), ti.arr.Elem(), Select(v, vc.idxLit(i), ei.sort))
			}
			return
		}
		if ei.kind == "struct" || ei.kind == "array" {
			vc.unsupp("store of large array of composite elements")
			return
		}
		name := vc.memName(ei)
		oldm := st.get(vc, name)
		newm := vc.freshState(name)
		r := Term{"qr", SRef}
		in := And(App(SBool, "(_ is elem)", r), Eq(App(SRef, "ebase", r), ref),
			vc.le(vc.idxLit(0), App(vc.idxSort(), "eidx", r), true), vc.lt(App(vc.idxSort(), "eidx", r), vc.idxLit(n), true))
		vc.assume(Forall([]Term{r}, Eq(Select(newm, r, ei.sort), Ite(in, Select(v, App(vc.idxSort(), "eidx", r), ei.sort), Select(oldm, r, ei.sort)))))
		st[name] = newm
		return
	case "tuple":
		vc.unsupp("store of tuple")
		return
	}
	name := vc.memName(ti)
	st[name] = vc.define(stateSym(name), Store(st.get(vc, name), ref, v))
}

// leaves enumerates the leaf cells (ref, type) of a value of type t stored at ref.
func (vc *VC) leaves(ref Term, t types.Type, f func(ref Term, ti *typeInfo, t types.Type)) {
	ti := vc.info(t)
	switch ti.kind {
	case "struct":
		for i := 0; i < ti.st.NumFields(); i++ {
			vc.leaves(vc.fld(ref, i), ti.st.Field(i).Type(), f)
		}
	case "array":
		if ti.arr.Len() <= 8 {
			for i := int64(0); i < ti.arr.Len(); i++ {
				vc.leaves(vc.elem(ref, vc.idxLit(i)), ti.arr.Elem(), f)
			}
			return
		}
		f(ref, ti, t) // caller handles large arrays specially
	default:
		f(ref, ti, t)
	}
}

// memKeys lists the memory arrays a value of type t occupies.
func (vc *VC) memKeys(t types.Type, out map[string]bool) {
	ti := vc.info(t)
	switch ti.kind {
	case "struct":
		for i := 0; i < ti.st.NumFields(); i++ {
			vc.memKeys(ti.st.Field(i).Type(), out)
		}
	case "array":
		vc.memKeys(ti.arr.Elem(), out)
	case "tuple":
	default:
		out[vc.memName(ti)] = true
	}
}

// preExistingRef: the cell is syntactically part of an object that existed at function entry
// (reached from a parameter or from a pointer found in the entry memory).
func (vc *VC) preExistingRef(ref Term) bool {
	s := ref.S
	for {
		switch {
		case strings.HasPrefix(s, "(fld "), strings.HasPrefix(s, "(elem "), strings.HasPrefix(s, "(sarr "):
			s = firstSexp(s[strings.Index(s, " ")+1:])
			continue
		}
		break
	}
	if strings.HasPrefix(s, "p_") || strings.HasPrefix(s, "fv_") {
		return true
	}
	return vc.preExisting[s]
}

// rootOf gives the allocation id of the object a ref points into.
func (vc *VC) rootOf(ref Term) Term {
	s := ref.S
	for {
		if strings.HasPrefix(s, "(fld ") || strings.HasPrefix(s, "(elem ") {
			inner := s[strings.Index(s, " ")+1:]
			arg := firstSexp(inner)
			s = arg
			continue
		}
		break
	}
	if s == "null" {
		return IntLit(-1)
	}
	if strings.HasPrefix(s, "(obj ") {
		return Term{firstSexp(s[5:]), SInt}
	}
	return App(SInt, "root", Term{s, SRef})
}

// firstSexp returns the first s-expression of s.
func firstSexp(s string) string {
	s = strings.TrimLeft(s, " ")
	if s == "" {
		return s
	}
	if s[0] != '(' {
		i := strings.IndexAny(s, " )")
		if i < 0 {
			return s
		}
		return s[:i]
	}
	depth := 0
	for i := 0; i < len(s); i++ {
		switch s[i] {
		case '(':
			depth++
		case ')':
			depth--
			if depth == 0 {
				return s[:i+1]
			}
		}
	}
	return s
}

func (vc *VC) addrOf(ref Term) Term {
	a := App(vc.intSort(64), "addr_of", ref)
	if vc.inQuant == 0 {
		vc.assumeOnce(Eq(App(SRef, "ptr_of", a), ref))
		vc.assumeOnce(Eq(Eq(a, vc.intLit(bigZero, 64)), Eq(ref, TNull)))
	}
	return a
}

// newObj allocates a fresh object and returns its Ref.
func (vc *VC) newObj(st State, hint string) Term {
	id := vc.freshConst("a_"+hint, SInt)
	vc.assume(App(SBool, ">=", id, st.get(vc, "$alloc")))
	st["$alloc"] = vc.define("alloc", App(SInt, "+", id, IntLit(1)))
	vc.assume(Eq(App(SInt, "root", App(SRef, "obj", id)), id))
	return App(SRef, "obj", id)
}

// ---- maps (Go maps live in the heap: content array + domain array per map ref) ----

func (vc *VC) mapNames(m *types.Map) (content, dom string) {
	ks, vs := vc.info(m.Key()).sort, vc.info(m.Elem()).sort
	key := hashStr(string(ks) + "->" + string(vs))
	content = "MapC_" + key
	dom = "MapD_" + key
	vc.registerState(content, ArrSort(SRef, ArrSort(ks, vs)))
	vc.registerState(dom, ArrSort(SRef, ArrSort(ks, SBool)))
	return
}

func (vc *VC) mapLookup(st State, m, k Term, mt *types.Map) Term {
	c, d := vc.mapNames(mt)
	ks, vs := vc.info(mt.Key()).sort, vc.info(mt.Elem()).sort
	in := Select(Select(st.get(vc, d), m, ArrSort(ks, SBool)), k, SBool)
	return Ite(in, Select(Select(st.get(vc, c), m, ArrSort(ks, vs)), k, vs), vc.zero(mt.Elem()))
}

func (vc *VC) mapHas(st State, m, k Term, mt *types.Map) Term {
	_, d := vc.mapNames(mt)
	ks := vc.info(mt.Key()).sort
	return Select(Select(st.get(vc, d), m, ArrSort(ks, SBool)), k, SBool)
}

func (vc *VC) mapLen(st State, m Term, mt *types.Map) Term {
	vc.registerState("MapLen", ArrSort(SRef, vc.idxSort()))
	return Select(st.get(vc, "MapLen"), m, vc.idxSort())
}

// ---- obligations ----

func (vc *VC) addObligation(kind, text string, props []string, pos token.Pos, guard, cond Term) *Obligation {
	fname := ""
	if vc.fn != nil {
		fname = FuncName(vc.fn)
	} else if vc.con != nil {
		fname = vc.con.Func
	}
	base := fmt.Sprintf("%s#%s:%s", fname, kind, text)
	n := vc.obNames[base]
	vc.obNames[base] = n + 1
	name := base
	if n > 0 {
		name = fmt.Sprintf("%s#%d", base, n+1)
	}
	if len(props) == 0 && vc.con != nil {
		props = vc.con.Props
	}
	ob := &Obligation{Name: name, Kind: kind, Func: fname, Text: text, Props: props, Mode: vc.mode.String(),
		nLines: len(vc.lines), nStart: vc.regionStart, Guard: guard, Cond: cond}
	if pos.IsValid() {
		p := vc.prog.SSA.Fset.Position(pos)
		ob.Pos = fmt.Sprintf("%s:%d", p.Filename, p.Line)
	}
	vc.obligations = append(vc.obligations, ob)
	return ob
}

var symRe = regexp.MustCompile(`[A-Za-z_][A-Za-z0-9_.$]*`)

func isHubSymbol(s string) bool {
	if strings.HasPrefix(s, "p_") || strings.HasPrefix(s, "fv_") || strings.HasPrefix(s, "strlit_") {
		return true
	}
	if strings.HasPrefix(s, "st_") && strings.HasSuffix(s, "_0") {
		return true
	}
	// reachability / edge booleans: f<N>_r_<k>, f<N>_r<block>_<k>, f<N>_e<a>_<b>_<k>, f<N>_be..., f<N>_rh...
	if len(s) > 1 && s[0] == 'f' {
		i := 1
		for i < len(s) && s[i] >= '0' && s[i] <= '9' {
			i++
		}
		if i > 1 && i < len(s) && s[i] == '_' {
			rest := s[i+1:]
			if strings.HasPrefix(rest, "r_") || strings.HasPrefix(rest, "rh") || strings.HasPrefix(rest, "be") ||
				(len(rest) > 1 && (rest[0] == 'r' || rest[0] == 'e') && rest[1] >= '0' && rest[1] <= '9') {
				return true
			}
		}
	}
	return false
}

// sliceLines keeps the declarations and definitions and only those assertions that are
// connected (through non-hub symbols) to the obligation. Dropping assumptions is always sound.
func (vc *VC) sliceLines(lines []string, seed string) []string {
	type lineInfo struct {
		kind string // declare | define | assert | other
		name string
		syms []string
	}
	infos := make([]lineInfo, len(lines))
	defIdx := map[string]int{}
	for i, l := range lines {
		switch {
		case strings.HasPrefix(l, "(declare-const "):
			f := strings.Fields(l[len("(declare-const "):])
			infos[i] = lineInfo{kind: "declare", name: f[0]}
		case strings.HasPrefix(l, "(define-fun "):
			f := strings.Fields(l[len("(define-fun "):])
			infos[i] = lineInfo{kind: "define", name: f[0], syms: symRe.FindAllString(l[len("(define-fun ")+len(f[0]):], -1)}
			defIdx[f[0]] = i
		case strings.HasPrefix(l, "(assert "):
			infos[i] = lineInfo{kind: "assert", syms: symRe.FindAllString(l, -1)}
		default:
			infos[i] = lineInfo{kind: "other"}
		}
	}
	rel := map[string]bool{}
	var work []string
	add := func(s string) {
		if !rel[s] {
			rel[s] = true
			work = append(work, s)
		}
	}
	for _, s := range symRe.FindAllString(seed, -1) {
		add(s)
	}
	included := make([]bool, len(lines))
	// assertions that only talk about hubs are global facts
	for i, li := range infos {
		if li.kind != "assert" {
			continue
		}
		allHub := true
		for _, s := range li.syms {
			if _, isDef := defIdx[s]; isDef || strings.Contains(s, "_") && !isHubSymbol(s) && (strings.HasPrefix(s, "f") || strings.HasPrefix(s, "st_") || strings.HasPrefix(s, "a_") || strings.HasPrefix(s, "alloc_") || strings.HasPrefix(s, "hv_") || strings.HasPrefix(s, "hm_")) {
				allHub = false
				break
			}
		}
		if allHub {
			included[i] = true
			for _, s := range li.syms {
				add(s)
			}
		}
	}
	for changed := true; changed; {
		changed = false
		for len(work) > 0 {
			s := work[len(work)-1]
			work = work[:len(work)-1]
			if di, ok := defIdx[s]; ok {
				for _, t := range infos[di].syms {
					add(t)
				}
			}
		}
		for i, li := range infos {
			if li.kind != "assert" || included[i] {
				continue
			}
			hit := false
			for _, s := range li.syms {
				if rel[s] && !isHubSymbol(s) && (defIdx[s] > 0 || strings.Contains(s, "_")) && !isBuiltinSym(s) {
					hit = true
					break
				}
			}
			if hit {
				included[i] = true
				changed = true
				for _, s := range li.syms {
					add(s)
				}
			}
		}
	}
	var out []string
	for i, l := range lines {
		if infos[i].kind == "assert" && !included[i] {
			continue
		}
		out = append(out, l)
	}
	return out
}

var builtinSyms = map[string]bool{"select": true, "store": true, "ite": true, "and": true, "or": true, "not": true, "forall": true, "exists": true,
	"true": true, "false": true, "Int": true, "Bool": true, "Ref": true, "Slice": true, "Str": true, "Iface": true, "null": true, "obj": true, "fld": true, "elem": true,
	"glob": true, "root": true, "sarr": true, "soff": true, "slen": true, "scap": true, "mkslice": true, "mkiface": true, "ityp": true, "ival": true, "is": true,
	"addr_of": true, "ptr_of": true, "oid": true, "fbase": true, "fidx": true, "ebase": true, "eidx": true, "nil_iface": true, "mod": true, "div": true, "distinct": true,
	"as": true, "const": true, "Array": true, "BitVec": true, "boxi": true, "boxs": true, "boxb": true, "bival": true, "bsval": true, "bbval": true, "let": true}

func isBuiltinSym(s string) bool {
	if builtinSyms[s] {
		return true
	}
	return strings.HasPrefix(s, "q_") || strings.HasPrefix(s, "qi") || strings.HasPrefix(s, "qr") || strings.HasPrefix(s, "qz") || strings.HasPrefix(s, "qs") ||
		strings.HasPrefix(s, "bv") || strings.HasPrefix(s, "str.") || strings.HasPrefix(s, "sf_") || strings.HasPrefix(s, "S_") || strings.HasPrefix(s, "T_") || strings.HasPrefix(s, "mk_") || strings.HasPrefix(s, "x") && len(s) > 1 && s[1] >= '0' && s[1] <= '9'
}

func (vc *VC) obligationScript(ob *Obligation, model bool) string {
	var tail strings.Builder
	fmt.Fprintf(&tail, "(assert %s)\n", ob.Guard.S)
	if !ob.Cover {
		fmt.Fprintf(&tail, "(assert (not %s))\n", ob.Cond.S)
	}
	tail.WriteString("(check-sat)\n")
	if model {
		tail.WriteString("(get-model)\n")
	}
	s := vc.scriptRegionGroup(ob.nStart, ob.nLines, tail.String(), ob.Group)
	if model {
		s = "(set-option :produce-models true)\n" + s
	}
	return s
}

// ---- loops ----

type loopInfo struct {
	header    *ssa.BasicBlock
	body      map[*ssa.BasicBlock]bool
	backPreds map[*ssa.BasicBlock]bool
	ordinal   int
	spec      *LoopSpec
}

func findLoops(fn *ssa.Function) (map[*ssa.BasicBlock]*loopInfo, error) {
	loops := map[*ssa.BasicBlock]*loopInfo{}
	reach := reachableBlocks(fn)
	for _, b := range fn.Blocks {
		if !reach[b] {
			continue
		}
		for _, s := range b.Succs {
			if s.Dominates(b) {
				li := loops[s]
				if li == nil {
					li = &loopInfo{header: s, body: map[*ssa.BasicBlock]bool{s: true}, backPreds: map[*ssa.BasicBlock]bool{}}
					loops[s] = li
				}
				li.backPreds[b] = true
				// body: nodes reaching b without passing s
				stack := []*ssa.BasicBlock{b}
				for len(stack) > 0 {
					x := stack[len(stack)-1]
					stack = stack[:len(stack)-1]
					if li.body[x] {
						continue
					}
					li.body[x] = true
					for _, p := range x.Preds {
						if reach[p] {
							stack = append(stack, p)
						}
					}
				}
			}
		}
	}
	// irreducibility check: every retreating edge in a DFS must be a back edge found above
	var headers []*ssa.BasicBlock
	for h := range loops {
		headers = append(headers, h)
	}
	sort.Slice(headers, func(i, j int) bool { return headers[i].Index < headers[j].Index })
	for i, h := range headers {
		loops[h].ordinal = i
	}
	// DFS for retreating edges
	state := map[*ssa.BasicBlock]int{}
	var bad error
	var dfs func(b *ssa.BasicBlock)
	dfs = func(b *ssa.BasicBlock) {
		state[b] = 1
		for _, s := range b.Succs {
			switch state[s] {
			case 0:
				dfs(s)
			case 1:
				if !s.Dominates(b) {
					bad = fmt.Errorf("irreducible control flow at block %d -> %d", b.Index, s.Index)
				}
			}
		}
		state[b] = 2
	}
	if len(fn.Blocks) > 0 {
		dfs(fn.Blocks[0])
	}
	return loops, bad
}

func reachableBlocks(fn *ssa.Function) map[*ssa.BasicBlock]bool {
	seen := map[*ssa.BasicBlock]bool{}
	if len(fn.Blocks) == 0 {
		return seen
	}
	stack := []*ssa.BasicBlock{fn.Blocks[0]}
	for len(stack) > 0 {
		b := stack[len(stack)-1]
		stack = stack[:len(stack)-1]
		if seen[b] {
			continue
		}
		seen[b] = true
		stack = append(stack, b.Succs...)
	}
	return seen
}

// topoOrder orders reachable blocks so that every non-back-edge predecessor comes first.
func topoOrder(fn *ssa.Function, loops map[*ssa.BasicBlock]*loopInfo) []*ssa.BasicBlock {
	reach := reachableBlocks(fn)
	var order []*ssa.BasicBlock
	seen := map[*ssa.BasicBlock]bool{}
	depth := func(b *ssa.BasicBlock) int {
		n := 0
		for _, li := range loops {
			if li.body[b] {
				n++
			}
		}
		return n
	}
	var visit func(b *ssa.BasicBlock)
	visit = func(b *ssa.BasicBlock) {
		if seen[b] {
			return
		}
		seen[b] = true
		// loop exits are visited first so that (after reversal) a loop's body is laid out
		// contiguously right after its header and the code after the loop follows it
		succs := append([]*ssa.BasicBlock{}, b.Succs...)
		sort.SliceStable(succs, func(i, j int) bool { return depth(succs[i]) < depth(succs[j]) })
		for _, s := range succs {
			if li := loops[s]; li != nil && li.backPreds[b] {
				continue
			}
			visit(s)
		}
		order = append(order, b)
	}
	if len(fn.Blocks) > 0 {
		visit(fn.Blocks[0])
	}
	for i, j := 0, len(order)-1; i < j; i, j = i+1, j-1 {
		order[i], order[j] = order[j], order[i]
	}
	_ = reach
	return order
}

#!/bin/sh
# Must-fail corpus: every patch under selftest/mutants/<Cxx>_*.patch (a property-breaking
# edit that still compiles) is applied to a scratch copy of /repo outside /repo and /verif;
# the property's check must then report a VIOLATION (and name the obligation listed in the
# optional .expect file). Usage: tools/selftest.sh [Cxx ...]
V=$(cd "$(dirname "$0")/.." && pwd)
fail=0
for p in "$V"/selftest/mutants/*.patch "$V"/seeded/*/patch.diff; do
  [ -f "$p" ] || continue
  case "$p" in
    */seeded/*) id=$(python3 -c "import json,sys;print(json.load(open(sys.argv[1]))['property'])" "$(dirname "$p")/meta.json"); name=$(basename "$(dirname "$p")");;
    *) name=$(basename "$p" .patch); id=${name%%_*};;
  esac
  if [ $# -gt 0 ]; then
    case " $* " in *" $id "*) ;; *) continue;; esac
  fi
  # ONLY="name1 name2": restrict to these patches (seed directory or mutant file names)
  if [ -n "${ONLY:-}" ]; then
    case " $ONLY " in *" $name "*) ;; *) continue;; esac
  fi
  scr=$(mktemp -d /tmp/gocv-selftest-XXXXXX)
  rsync -a --exclude .git "${REPO:-/repo}"/ "$scr"/
  if ! (cd "$scr" && patch -p1 -s < "$p"); then
    echo "SELFTEST $name: patch does not apply"; fail=1; rm -rf "$scr"; continue
  fi
  out=$(cd "$V" && GOCV_VERIF="$V" GOCV_REPO="$scr" GOCV_EVIDENCE_DIR="$scr/.evidence" GOCV_REPLAY_DIR="$scr/.replays" bin/gocv check "$id" 2>&1)
  rc=$?
  exp=""
  [ -f "${p%.patch}.expect" ] && exp=$(cat "${p%.patch}.expect")
  [ -f "$(dirname "$p")/expect" ] && exp=$(cat "$(dirname "$p")/expect")
  if [ $rc -eq 1 ] && echo "$out" | grep -q "^VIOLATION property=$id"; then
    if [ -n "$exp" ] && ! echo "$out" | grep -qF "$exp"; then
      echo "SELFTEST $name: violation reported but not the expected obligation ($exp)"; echo "$out" | grep "failed obligation" | head -5; fail=1
    else
      echo "SELFTEST $name: caught ($(echo "$out" | grep -c '^VIOLATION') violation lines)"
      [ -n "${SHOW:-}" ] && echo "$out" | grep "failed obligation" | head -${SHOW}
    fi
  else
    echo "SELFTEST $name: NOT caught (exit $rc)"; echo "$out" | tail -5; fail=1
  fi
  rm -rf "$scr"
done
exit $fail

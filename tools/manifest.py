#!/usr/bin/env python3
"""Regenerates /verif/MANIFEST.json from the table below (kept in one place so that
claims, levels and not_applicable reasons stay consistent)."""
import json, subprocess, os
V = os.path.dirname(os.path.dirname(os.path.abspath(__file__)))
props = [json.loads(l)["id"] for l in open(os.path.join(V, "properties.jsonl"))]

TRUST = ("Trusted: go/packages+go/types+go/ssa (x/tools v0.50.0) translate the source faithfully; the gocv VC generator; "
         "an unsat answer of z3 5.1.0 / z3 4.8.12 / cvc5 1.0.3 is right; only linux/amd64 is verified; ")

claims = {
 "C09": dict(
   level="proof",
   text=("Contracts on the real code (SSA built from /repo on every run) for container.convertReply and the syscall.WaitStatus "
         "decoding methods it calls (their toolchain bodies are verified too, not trusted): for all 2^32 wait words and any rusage the "
         "reply carries the status/exit value of the README table; an unclassifiable word or a wait error yields an error reply with non-empty text. "
         "Every obligation is discharged by an SMT solver for all inputs (bit-vector exact semantics)."),
   note=TRUST + "fmt.Sprintf contract assumed (non-empty result for a format starting with a literal). ptrace/unshare wait loops: see evidence undecided/functions list.",
   technique="contract-based deductive verification: WP/VC generation over go/ssa, SMT (z3/cvc5)",
   design_ref="DESIGN.md §4 C09"),
}

na_reasons = {
 "C11": "cancellation 'at any moment ... within bounded time' quantifies over goroutine/kernel interleavings and wall-clock time; sequential function contracts cannot express or decide it (DESIGN.md §5)",
 "C17": "non-interference of concurrently running sandboxes is a property of thread/goroutine schedules; the contract verifier has no concurrency semantics (DESIGN.md §5)",
}

m = {
 "version": 1,
 "setup_cmd": "sh /verif/build.sh",
 "hooks": {
   "guard": "verif",
   "enable": "go build -tags verif (contract files zz_contracts_verif.go are comment-only and compiled only with the tag; gocv loads /repo with -tags=verif)",
   "baseline_off_cmd": "cd /repo && GOFLAGS=-mod=mod go test -json -vet=off -count=1 -timeout 25m ./...",
   "source_commits": subprocess.run(["git","-C","/repo","log","--format=%H","--grep=^verif:"],capture_output=True,text=True).stdout.split(),
   "add_only": True},
 "engines": [{"name":"gocv","path":"/verif/gocv","serves_properties":sorted(claims),"kind_free_text":"contract-based deductive verifier for Go written for this task: contracts as //@ comments in /repo (build tag verif), VC generation over go/ssa, discharge by z3 5.1.0 / z3 4.8.12 / cvc5 1.0.3"}],
 "checks": [],
 "notes": "See DESIGN.md. Exit codes of every check: 0 held; 1 + VIOLATION line; 2 + UNDECIDED line when a contract no longer binds to the code (nothing proved, nothing refuted).",
 "not_applicable": [],
}
for pid in props:
    if pid in claims:
        c = claims[pid]
        m["checks"].append({
          "property_id": pid,
          "quick_cmd": f"bin/gocv check --tier quick {pid}",
          "thorough_cmd": f"bin/gocv check --tier thorough {pid}",
          "evidence_file": f"/verif/evidence/{pid}.json",
          "replay_cmd_template": "bin/gocv replay {path}",
          "engine": "gocv",
          "level_claimed": {"category": c["level"], "text": c["text"], "design_ref": c["design_ref"]},
          "level_note": c["note"],
          "technique": c["technique"]})
    else:
        m["not_applicable"].append({"property_id": pid, "reason": na_reasons.get(pid, "not yet built in this round (see DESIGN.md §8 for the order of work)")})
json.dump(m, open(os.path.join(V, "MANIFEST.json"), "w"), indent=1)
print("claimed:", sorted(claims), "n/a:", [x["property_id"] for x in m["not_applicable"]])

#!/usr/bin/env python3
"""Regenerates /verif/MANIFEST.json from the table below (kept in one place so that
claims, levels and not_applicable reasons stay consistent)."""
import json, subprocess, os
V = os.path.dirname(os.path.dirname(os.path.abspath(__file__)))
props = [json.loads(l)["id"] for l in open(os.path.join(V, "properties.jsonl"))]

TRUST = ("Trusted: go/packages+go/types+go/ssa (x/tools v0.50.0) translate the source faithfully; the gocv VC generator; "
         "an unsat answer of z3 5.1.0 / z3 4.8.12 / cvc5 1.0.3 is right; only linux/amd64 is verified; ")

claims = {
 "C01": dict(level="proof",
   text=("Contracts on the real code: cleanTrace, Action.Action, ToSeccompAction (total map, unset/unknown fails closed to KILL_PROCESS), sockFilter (lossless copy, quantified loop invariant), "
         "ExportBPF, Builder.Build (call-site obligation: the Policy handed to go-seccomp-bpf has exactly the translated default action, group 0 = ALLOW for Allow, group 1 = TRACE for Trace), "
         "package initialiser (actTrace constant). All obligations discharged by SMT for all inputs. "
         "Bounded part (labelled bounded): the assembled cBPF program itself is interpreted by an independent interpreter for 35 policies x 4 architecture tags x syscall numbers 0..460 (thorough: 0..4096), their x32 aliases and 32-bit edge values, and compared with the declared policy (allow / trace / default incl. fail-closed default, foreign architecture => default, x32 => refused)."),
   note=TRUST + "ToSeccompAction also carries C03 (a filter kill must be KILL_PROCESS so that it ends the run). ASSUMED, not verified: go-seccomp-bpf Policy.Assemble compiles the policy correctly and x/net/bpf.Assemble is lossless (dependency code; only bounded-checked through the interpreter stand-in, never counted as proved); cmd/runprog config.cleanTrace is under contract (the allow and trace lists handed to the builder are disjoint, every traced name stays traced, nothing is allowed that was not asked for; keySetToSlice trusted: range over a map).",
   design_ref="DESIGN.md §4 C01"),
 "C02": dict(level="other",
   text=("Proof part (all register values, all syscall numbers): runner/ptrace tracerHandler.Handle against a decode table taken from the system call signatures - for each of the 35 path-taking calls it decodes, exactly one policy query (two for rename/renameat/renameat2/linkat) is logged in ghost Q with the access class of the call "
         "(open/openat: write whenever O_ACCMODE != 0 or O_CREAT or O_TRUNC; openat2: write unless open_how could be read and says read-only) and the path kres(pid, dirfd, string at the path register), where the directory descriptor is read as the kernel reads it (C int: low 32 bits, sign-extended) from the right register; "
         "absPath/absPathAt choose the base exactly by the kernel rule (absolute: /, AT_FDCWD: cwd, else the descriptor's directory, unresolvable -> empty path); procfs references go to the procfs policy; the string itself is assembled from chunks read at the tracee addresses that correspond to their place in the buffer (vmReadStr call-site obligation). Found and fixed: dirfd decoded from the whole 64-bit register; symlinkat decoded with mkdirat's argument positions. "
         "Bounded part (labelled bounded): the symlink walk resolveTraceePath itself is compared with the kernel on a real tree for every path up to 4 (thorough: 5) components; it exposes two genuine defects kept as known findings (lexical '..' before symlink expansion; final symlink followed for no-follow calls)."),
   note=TRUST + "decode table (spec in the Handle contract) transcribed from the man pages; GetString/tracee memory, /proc readlinks (getProcCwd/getProcFd verified for safety, results abstract), ToSyscallName table is trusted; readOpenHowFlags is verified for which tracee, which address and how many bytes it reads (the value read stays vocabulary); calls the handler does not decode (mkdir, rmdir, creat, truncate, chown, utimes ...) go to the syscall-name policy and are outside the statement's 'path it presents'; the resolver is only bounded-checked, never counted as proved.",
   design_ref="DESIGN.md §4 C02"),
 "C03": dict(level="proof",
   text=("Tracer side: handleTrap (ban => exactly one register write with syscall number -1 for that pid, kill => error, allow => no write), handle (a non-Normal verdict is returned without continuing the tracee; "
         "every PtraceCont of a stopped pid happens after its options word was installed; option word = SECCOMP|EXITKILL|FORK|CLONE|VFORK|EXEC), setPtraceOption, skipSyscall, SetReturnValue. "
         "Child side (forkAndExecInChild, model K): when ptrace and a filter are both requested the child has called TRACEME and stopped itself before the filter is loaded. Tracer.Trace pins the goroutine to its OS thread before the launcher runs and keeps it pinned while the trace loop runs (ptrace requests are thread-bound)."),
   note=TRUST + "kernel model T/K: a stop with syscall number -1 skips the call; options are inherited by auto-attached children; SIGSYS on filter kill. runner/ptrace Handle: verdict in {allow, ban, kill}, ban sets the return register to -BanRet and nothing else touches it, combineTraceActions (kill dominates ban dominates allow), invalid syscall number => kill.",
   design_ref="DESIGN.md §4 C03"),
 "C04": dict(level="proof",
   text=("One contract on forkexec.forkAndExecInChild with a symbolic *Runner (all option combinations at once) over ghost child state K: at both exec call sites and in the ETXTBSY retry loop "
         "caps empty + NOROOT locked when credentials/drop-caps requested, no_new_privs when requested or a filter is given, the filter installed iff given (that very program, TSYNC), uid/gid/groups, new session, ctty, cwd, host/domain name issued with the configured length, "
         "clone/clone3 flags = requested namespaces, INTO_CGROUP iff a cgroup fd is given; late cgroup unshare only after the sync ack. Every raw syscall may fail in the model, so a dropped error check is a reachable path. Parent side of a new user namespace (writeIDMaps, model U): uid_map, then setgroups (deny unless gid mappings are given with setgroups enabled), then gid_map, for the child's pid; every error is an errno value."),
   note=TRUST + "kernel model K (spec/kernel_K.contracts, from the man pages); results of sethostname/setdomainname/unshare are ignored by the code and asserted on issue only; Runner literals: container handleExecve and unshare.Run are checked at their Start call sites (always no_new_privs + drop-caps; unshare: exactly the five unshare namespaces, late cgroup unshare, no ptrace); found and fixed: a Runner without a seccomp filter crashed in Filter.SockFprog instead of starting the program without one. ptrace.Run is checked at its Trace call site (ptrace on, exactly the caller's filter or none, the tracer consults exactly the caller's policy).",
   design_ref="DESIGN.md §4 C04"),
 "C05": dict(level="proof",
   text=("Raw in-child mount sequence (forkAndExecInChild, model K): loop invariant over all mount entries (each mounted with exactly its source/target/type/flags/data; bind-read-only entries remounted with at least their own flags plus REMOUNT), "
         "pivot_root -> detach old root -> remove it -> read-only remount of / required at exec whenever a pivot root is configured; bit-level facts proved as bv lemmas. "),
   note=TRUST + "kernel models K (raw child) and M (package syscall mounts); precondition: mount targets are distinct pointers. Container side: mount.Mount.Mount (each configured mount issued with exactly its own arguments; read-only binds remounted on the same target with at least their own flags plus MS_REMOUNT), container initFileSystem (root tmpfs -> chdir -> all configured mounts -> pivot_root(ContainerRoot) -> lazy unmount and removal of exactly the old root -> symlinks and masks only after pivot+detach -> nil only if the last remount of / was read-only), maskPath. handleConf and initContainer are under contract: a configuration command is answered with success only after the whole sequence ran on exactly the configuration that arrived (pivoted into its root, old root detached, root sealed read-only), and the host-configured init command runs only inside the sealed root; the fresh mount state at that moment is the listed rely A-CONF on the host (it configures a container once, first, with remount-free flags); mount.Builder.WithBind/WithTmpfs/WithProcRW are under contract (a bind declared read-only carries MS_BIND|MS_RDONLY, every bind is nosuid, tmpfs nosuid|nodev, proc nosuid|nodev|noexec and read-only unless asked); Mount.ToSyscall and Builder.Build marshal exactly the configured source/target/type/flags/data into the raw parameters the child's mount loop uses (cstr abstraction of BytePtrFromString); NewDefaultBuilder (the default root is four read-only nosuid binds of /usr, /lib, /lib64, /bin), WithProc (read-only), WithMount, and FilterNotExist (in-place compaction: every kept entry is one of the given entries, unchanged, quantified loop invariant with a witness) are under contract; every With* method leaves the earlier entries as they were. That these mounts make the host unreachable is kernel behaviour.",
   design_ref="DESIGN.md §4 C05"),
 "C06": dict(level="proof",
   text=("Descriptor shuffle of forkAndExecInChild proved with quantified loop invariants over the ghost descriptor table for all lists (length, order, repeats, close markers, overlaps with the scratch area and with the sync/exec descriptors): "
         "at exec slot k holds the caller's k-th file with CLOEXEC clear (or is closed for a marker), every descriptor >= len is CLOEXEC; frame: no store to caller-visible memory (found and fixed: Runner.ExecFile write-back); prepareFds."),
   note=TRUST + "A-FD: every descriptor open in the launching process is CLOEXEC. For the container init this is discharged in part: Init calls closeOnExecAllFds before it wraps the control socket on descriptor 3 (call-site obligation); closeOnExecAllFds marks every entry of the /proc/self/fd listing close-on-exec, stdio included (loop invariant over the listing), and handleExecve marks the received descriptors (closeOnExecFds); that the listing is complete and that Go's runtime opens its own descriptors CLOEXEC is assumed. Listed descriptors differ from the fresh socketpair. The container's control socket is marked close-on-exec when it is wrapped (unixsocket.NewSocket).",
   design_ref="DESIGN.md §4 C06"),
 "C07": dict(level="proof",
   text=("Child side of the sync gate (forkAndExecInChild, model K): exec is reachable with a sync callback configured only after the ready word was written to and the ack read from the sync socket (same open file), in that order; "
         "every childExitError call names a location whose step class contains the system call that just failed, with the index of the mount/rlimit entry; childExitError* write {err, location, index} to the sync socket and never return."),
   note=TRUST + "kernel model K (child) and parent-side model of Kill/Wait4/Close/Socketpair. Parent side: syncWithChild/Start invoke the callback at most once, only after the ready word was read and before the ack is written, with the pid fork returned; on a callback error or a child-reported error handleChildFailed kills and reaps that pid before returning a non-nil error. ASSUMED (A-K4): reads on the sync socket return 0, 8 or 24 bytes (readChildErr abstracts). Container handleExecve$1 (syncPid relay) is under contract for the protocol state only; that the relayed pid is the host-side pid is kernel behaviour (SCM_CREDENTIALS).",
   design_ref="DESIGN.md §4 C07"),
 "C08": dict(level="proof",
   text=("PrepareRLimit: the complete table for all records - length, and for each of CPU, DATA, FSIZE, STACK, AS, NOFILE, CORE the entry sits at the index given by the number of configured resources before it, with its own resource number and soft/hard values (CPU hard limit never below the soft one); the rlimit loop of forkAndExecInChild issues prlimit64(0, Res_k, {Cur_k, Max_k}, NULL) with exactly the k-th listed entry's resource and soft/hard values (call-site obligation), every entry up to the loop index has been set (invariant), and a failure ends the child with the entry's index (model K); ptracer.checkUsage: time = utime in ns, memory = maxrss*1024, MLE over TLE over Normal for all 64-bit values; "
         "output collector (pipe.NewBuffer/NewPipe and its copy goroutine, model C): the cap handed to the copy is max+1, at most that many bytes reach the buffer, the rest of the stream is drained to EOF unconditionally and only then is the read end closed."),
   note=TRUST + "the bounded stand-in C08/rlimit (156250 records, labelled bounded, not counted as proved) is kept as an independent cross-check of the PrepareRLimit table, which is now proved in full. io.CopyN/io.Copy are modelled, not verified; that draining prevents SIGPIPE/blocking is kernel pipe behaviour.",
   design_ref="DESIGN.md §4 C08"),
 "C09": dict(level="proof",
   text=("For all 2^32 wait words: container.convertReply and ptracer handle/trace equal the README status table (main process); an exit or fatal signal of a secondary process leaves the run going with status Normal; "
         "Runner Error only with a non-empty text. syscall/unix WaitStatus methods are verified from the toolchain source, not trusted."),
   note=TRUST + "fmt.Sprintf / error.Error non-empty-text contracts assumed. The container's wait loop reports the status of exactly the pid the exec handler asked for (wait4 of that pid, retried on EINTR; a reap-all request waits for any child). Host container.convertReplyResult/errResult are under contract (status copied through, Runner Error carries text), and waitForDone hands the caller exactly the verdict of one conversion, unmodified, on each of its three paths (ghost CR); Tracer.Trace: a launcher failure is a Runner Error with the launcher's text. unshare.Run: at every return the verdict equals the table (MLE over TLE by the reported usage first, then exit code / signal), the reported time and memory are the compared ones, Runner Error carries text; the nanosecond conversion itself is only proved for the ptrace runner (checkUsage).",
   design_ref="DESIGN.md §4 C09"),
 "C10": dict(level="proof",
   text=("Typestate proof of both ends of the RPC against one protocol automaton (spec/protocol.contracts; ghost P.st for the container init, H.st for the host; states idle/awaiting-reply/exec-sync/.../LOST). "
         "Container side: serve, recvCmd, handleCmd and every handler (ping, conf, open, delete, reset, symlink, execve incl. the sync closure and handleExecveStarted) send exactly the replies the automaton allows for the command in progress on every path, including all error paths "
         "(found and fixed: a panic on an empty argument list; exec failing after sync left the kill command unread). Host side: sendCmd/recvReply/recvAckReply and Ping, conf, Open, Delete, Reset, Symlink, Execve (+execveSyncKill, waitForDone) start and end in idle-or-LOST, consume exactly the replies of their own command, "
         "and once LOST every later call returns an error without receiving. Duality lemmas (host send/recv steps mirror container recv/send steps; every exec path ends idle) are discharged by SMT."),
   note=TRUST + "The two ends are verified separately against the shared automaton; that the socket delivers messages in order is C19 (assumed here). Channel roles (recvCh/done) are assumed contracts; the user's sync callback is assumed not to touch the socket. Goroutine interleavings inside Execve are abstracted by the channel-role contracts. 'fails promptly instead of hanging' is proved as 'returns an error without a blocking receive', not as a time bound.",
   design_ref="DESIGN.md §4 C10"),
 "C13": dict(level="proof",
   text=("Reset (model R): removeContents returns nil only if RemoveAll returned nil for dir/name of every name the complete directory listing (Readdirnames(-1)) returned, whatever the name; handleReset sends the success reply only after every tmpfs mount of the configuration was emptied that way (quantified over all mounts) and an error reply otherwise. "
         "Sealed executables (model F): memfd.New creates with MFD_CLOEXEC|MFD_ALLOW_SEALING; DupToMemfd returns a file only if the reader was copied to EOF into that very descriptor, then all four seals (SEAL|SHRINK|GROW|WRITE) were added to it, then it was positioned at offset 0 - in that order."),
   note=TRUST + "os.RemoveAll/Readdirnames/ReadFrom/fcntl/lseek are modelled from their documentation, not verified; that seals cannot be removed and that RemoveAll(nil) means gone is kernel/library behaviour; entries created between listing and reply (nothing runs during Reset: C10 typestate) are out of scope; host-side Reset only for the protocol (C10).",
   design_ref="DESIGN.md §10.2"),
 "C14": dict(level="proof",
   text=("Index alignment of batch file operations, both ends, for all batch sizes and all success/failure mixtures: container handleOpen/handleDelete/handleSymlink produce one error slot per item (loop invariants), the number of descriptors sent equals the number of empty error slots (rank), "
         "host Open assigns the rank(k)-th received descriptor to the k-th result exactly when slot k is empty and returns error-only results otherwise; Symlink/Delete results align with the request; descriptor count mismatches end in an error, never a mis-assignment. "
         "Every os.OpenFile in handleOpen is called with exactly the k-th request's path, flags and mode, and only directly after checkOpenTargetFile of that same path returned nil. rank is a recursive heap-dependent spec function; its frame and bounds lemmas are proved by induction (step by SMT)."),
   note=TRUST + "checkOpenTargetFile itself (lstat says regular or absent) is abstracted by its ghost effect; the window between lstat and open is not closed by the code (no program runs while the container serves Open, which is a C10 typestate fact, not re-proved here); that the container fills descriptor slots in request order follows from the append order only (len(fds) == rank invariant), the identity of each descriptor is kernel state. Induction principle for rank_frame/rank_bounds applied outside the solver (listed as assumption).",
   design_ref="DESIGN.md §4 C14"),
 "C12": dict(level="proof",
   text=("Partial. Processes: the deferred clean-up of Tracer.trace issues kill(-pgid, SIGKILL) and then reaps until wait4 fails, on every return path; forkexec Start/syncWithChild/handleChildFailed kill and reap the child on every failing path (parent-side model). "
         "Descriptors: forkexec Start closes both ends of the sync socketpair on every path; container handleOpen/handleExecve close every file they opened after sending (closeFds over all entries) and on every error path; host Open closes all received descriptors when it fails part-way (Open$1). *os.File ownership (ghost FC): every file queued with a reply is closed by the container's send loop after the send, whether or not it succeeded, or closed directly when the transport is already lost (sendReplyFiles, sendLoop); NewSocket closes the os.File wrapper it creates; DupToMemfd closes its memfd on every failure; the output collector closes its read end; the id-map writer closes its descriptor on every path. Host Builder.Build: whenever it fails after the container init was started, that init has been killed and reaped before the error is returned (quantified over every process started by the call; found and fixed: two failure paths returned without destroying it)."),
   note=TRUST + "unshare.Run's deferred clean-up likewise kills the group and reaps (Run$2). Goroutine counts are not under contract; unixsocket RecvMsg descriptor ownership is C19 (not claimed); that everything is dead afterwards is kernel behaviour.",
   design_ref="DESIGN.md §4 C12"),
 "C15": dict(level="proof",
   text=("No-panic/termination obligations for tracer-side code under an unconstrained tracee: clen, hasNull, vmRead, vmReadStr, GetString, Context accessors, handle, handleTrap, trace (Runner Error only on the two launcher-side causes), IsInSetSmart/dirname; "
         "found and fixed: clen returned len+1 for unterminated buffers (slice bounds panic)."),
   note=TRUST + "kernel model T for process_vm_readv / PEEKDATA. Also covered: every function of runner/ptrace/handle_linux.go that runs on tracee-controlled registers and strings (Handle, the check* family, absPath/absPathAt, getString*, checkProcPath, isAllowedProcAlias, isDangerousProcPath, normalizeProcMagicPath, resolveTraceePath with its 40-step bound, resolveTraceePathOnce, getProcCwd/getProcFd) - no index/slice/nil/overflow failure for any input, with strings/filepath/os helpers as assumed contracts; readOpenHowFlags is verified too. Every ptrace stop that does not end the run resumes the tracee (continue count +1) and a stop signal other than SIGXCPU/SIGXFSZ never decides the verdict. 'Never stops making progress' is otherwise proved as loop termination (decreases / bounded counters) of the tracer-side loops only; blocking in the kernel is out of reach.",
   design_ref="DESIGN.md §4 C15"),
 "C16": dict(level="proof",
   text=("Arming only (thin): Builder.startContainer starts the container init with SysProcAttr.Pdeathsig == SIGKILL on the path that reaches exec.Cmd.Start; the ptrace option word installed for every traced pid before its first continue contains PTRACE_O_EXITKILL (C03 obligations); the container serve loop never returns nil (every transport error ends it), and container.Init, once it is the container init, never returns to its caller: every path ends in os.Exit (Init$1 ensures false)."),
   note=TRUST + "that Pdeathsig/EXITKILL/pid-namespace teardown kill everything 'within bounded time' whenever the controller dies is kernel behaviour and a statement over crash instants; the host goroutines are not under contract. This is a claim about the arming calls, nothing more.",
   design_ref="DESIGN.md §10.2"),
 "C19": dict(level="proof",
   text=("Receive side (model S: recvmsg installs control-data descriptors on arrival): RecvMsg either returns exactly the arrived descriptors in order, none of them closed, or returns an error with no descriptors and every arrived descriptor closed - on every path, including truncated messages (found and fixed: a truncated message leaked its descriptors) and parser rejections; parseMsg and its deferred clean-up, closeReceivedFds. "
         "Send side: the control data handed to sendmsg is exactly [SCM_RIGHTS of m.Fds iff any] followed by [SCM_CREDENTIALS of m.Cred iff given], assembled afresh per call, payload untouched. Constructors return sockets with 4096-byte control buffers and non-nil connections."),
   note=TRUST + "A-S1: ParseSocketControlMessage/ParseUnixRights/ParseUnixCredentials never fail on kernel-written control data and describe exactly the installed descriptors (at most one SCM_RIGHTS item per message); 'whole and in order' and close-on-exec on arrival are SOCK_SEQPACKET / MSG_CMSG_CLOEXEC kernel behaviour inside net.UnixConn (not verified); gob framing in container/socket_linux.go is not under contract.",
   design_ref="DESIGN.md §10.2"),
 "C20": dict(level="other",
   text=("Partial (ownership and pid writes; model G: directory creation under interference, where only a single mkdir is atomic): EnsureDirExists returns nil only if this very call created the directory (found and fixed: stat followed by MkdirAll told several concurrent creators that each had created the group); "
         "V2.New marks a handle as not-existing only if its own mkdir created the directory; V2.Destroy and V1.Destroy issue rmdir for the group's directories only through a handle that is not marked existing, and for every controller directory of such a handle; "
         "AddProcesses issues one write per pid carrying exactly that pid's decimal text; Existing() returns the flag."),
   note=TRUST + "Units table (which control file, which scaling) for v1 and v2: CPU time = usage_usec of cpu.stat x 1000 (v2) / cpuacct.usage (v1), memory = memory.current, memory.peak (v2) / memory.usage_in_bytes, memory.max_usage_in_bytes (v1), process count = pids.peak, limits go to memory.max / pids.max (v2) and memory.limit_in_bytes / pids.max (v1) with the given value - over abstract file contents (cgval) and a ghost record of the last number written; Random returns only a group it created (found and fixed: the retry on an existing group was unreachable). Two known findings: on v1 a limit call on a group whose controller was never set up returns nil without writing. CPU bandwidth: v1 writes cpu.cfs_quota_us then cpu.cfs_period_us of the cpu controller, each with the value given (ghost record of the last two writes); v2 writes \"<quota> <period>\" to cpu.max in one write and refuses without the controller; cpuset writes carry the bytes given to the documented file; newV1's per-controller step lists in `all` only a directory this call created (a pre-existing one is never listed, so never removed); OpenExisting on v1 returns a handle marked existing (found and fixed: it returned nil). NOT decided: the text parsing itself (Scanner/Fields/ParseUint are assumed), loopV1Controllers/newV1 wiring around the verified callback, newV2, FindMemoryStatProperty; that writing a pid moves exactly that process is kernel behaviour. 'Distinct group nested under its parent even when created concurrently' is proved only as the mkdir-atomicity consequence above.",
   design_ref="DESIGN.md §10.2"),
 "C18": dict(level="proof",
   text=("CheckRead/CheckWrite/CheckStat cascade (write => read => stat) and refusal => ban iff soft-ban covers else kill, over an abstract cover predicate; SyscallCounter.Check step contract; budget lemmas over histories; termination and memory safety of the matcher. "
         "Bounded part (labelled bounded): IsInSetSmart against the documented cover relation for every path over {a,b} up to 4 (thorough: 6) levels plus the empty path and /, against every set of one or two entries; found and fixed: the children entry /* admitted / itself."),
   note=TRUST + "the string-content matcher IsInSetSmart is abstracted in the proofs (deterministic function of set and name); its agreement with the documented cover relation is bounded-checked only, never counted as proved; realPath (EvalSymlinks) is abstract. FileSet.Add/AddRange: absolute names are entered as written ('/' as the system-root flag), relative names as the directory entry workPath/name + '/', nothing is removed.",
   design_ref="DESIGN.md §4 C18"),
}
for k in claims: claims[k].setdefault("technique", "contract-based deductive verification: VC generation over go/ssa from //@ contracts, SMT (z3 5.1/4.8, cvc5)")

na_reasons = {
 "C11": "cancellation 'at any moment ... within bounded time' quantifies over goroutine/kernel interleavings and wall-clock time; sequential function contracts cannot express or decide it (DESIGN.md §5)",
 "C17": "non-interference of concurrently running sandboxes is a property of thread/goroutine schedules; the contract verifier has no concurrency semantics (DESIGN.md §5)",
}

m = {
 "version": 1,
 "setup_cmd": "sh /verif/build.sh",
 "hooks": {
   "guard": "verif",
   "enable": "go build -tags verif (contract files zz_contracts_verif.go are comment-only and compiled only with the tag; gocv loads /repo with -tags=verif)",
   "baseline_off_cmd": "cd /repo && GOFLAGS=-mod=mod go test -json -vet=off -count=1 -timeout 25m ./...",
   "source_commits": subprocess.run(["git","-C","/repo","log","--format=%H","--grep=^verif:"],capture_output=True,text=True).stdout.split(),
   "add_only": True},
 "engines": [{"name":"gocv","path":"/verif/gocv","serves_properties":sorted(claims),"kind_free_text":"contract-based deductive verifier for Go written for this task: contracts as //@ comments in /repo (build tag verif), VC generation over go/ssa, discharge by z3 5.1.0 / z3 4.8.12 / cvc5 1.0.3"}],
 "checks": [],
 "notes": "See DESIGN.md. Exit codes of every check: 0 held; 1 + VIOLATION line; 2 + UNDECIDED line when a contract no longer binds to the code (nothing proved, nothing refuted).",
 "not_applicable": [],
}
for pid in props:
    if pid in claims:
        c = claims[pid]
        m["checks"].append({
          "property_id": pid,
          "quick_cmd": f"bin/gocv check --tier quick {pid}",
          "thorough_cmd": f"bin/gocv check --tier thorough {pid}",
          "evidence_file": f"/verif/evidence/{pid}.json",
          "replay_cmd_template": "bin/gocv replay {path}",
          "engine": "gocv",
          "level_claimed": {"category": c["level"], "text": c["text"], "design_ref": c["design_ref"]},
          "level_note": c["note"],
          "technique": c["technique"]})
    else:
        m["not_applicable"].append({"property_id": pid, "reason": na_reasons.get(pid, "not yet built in this round (see DESIGN.md §8 for the order of work)")})
json.dump(m, open(os.path.join(V, "MANIFEST.json"), "w"), indent=1)
print("claimed:", sorted(claims), "n/a:", [x["property_id"] for x in m["not_applicable"]])

#!/bin/sh
# tools/mkmutant.sh <name> <file relative to /repo> <sed expression>  -> selftest/mutants/<name>.patch
set -e
V=$(cd "$(dirname "$0")/.." && pwd)
scr=$(mktemp -d /tmp/gocv-mk-XXXXXX)
mkdir -p "$scr/a/$(dirname "$2")" "$scr/b/$(dirname "$2")"
cp "/repo/$2" "$scr/a/$2"; cp "/repo/$2" "$scr/b/$2"
sed -i "$3" "$scr/b/$2"
(cd "$scr" && diff -u "a/$2" "b/$2" > "$V/selftest/mutants/$1.patch") || true
rm -rf "$scr"
if [ ! -s "$V/selftest/mutants/$1.patch" ]; then echo "mutant $1: sed changed nothing"; rm -f "$V/selftest/mutants/$1.patch"; exit 1; fi
echo "wrote selftest/mutants/$1.patch"

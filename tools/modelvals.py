#!/usr/bin/env python3
"""usage: modelvals.py query.smt2 regex  -- prints model values of nullary define-funs / declared consts whose name matches"""
import re,subprocess,sys
q=open(sys.argv[1]).read()
pat=re.compile(sys.argv[2])
names=[]
for m in re.finditer(r'^\((?:define-fun|declare-const) (\S+) (?:\(\) )?', q, re.M):
    n=m.group(1)
    if pat.search(n): names.append(n)
q=q.replace('(get-model)','')
q+='\n(get-value (%s))\n' % ' '.join(names)
open('/tmp/_mv.smt2','w').write(q)
out=subprocess.run(['z3-new','-T:60','/tmp/_mv.smt2'],capture_output=True,text=True).stdout
print(out[:6000])

#!/bin/bash
# tools/verify_seed.sh <seed dir from a sub-agent> <name>
# Confirms in a scratch worktree of /repo HEAD that the change compiles, the existing suite passes
# with it, and the demonstration fails with it and passes without it; stores it under /verif/seeded/<name>.
set -u
src=$1; name=$2
V=/verif
wt=$(mktemp -d /tmp/vseed-XXXXXX); rmdir "$wt"
git -C /repo worktree add -q --detach "$wt" HEAD || exit 2
cleanup() { git -C /repo worktree remove --force "$wt" >/dev/null 2>&1; rm -rf "$wt"; }
trap cleanup EXIT
demo=$(python3 -c "import json,sys;print(json.load(open('$src/meta.json'))['demo'])")
run=$(echo "$demo" | tr -d "'\"" | grep -o -- '-run [A-Za-z0-9_|]*' | head -1 | awk '{print $2}')
pkg=$(echo "$demo" | grep -o -- ' \./[a-z/_]*' | head -1 | tr -d ' ')
[ -z "$run" ] || [ -z "$pkg" ] && { echo "$name: cannot parse demo command"; exit 2; }
export GOFLAGS=-mod=mod
cp "$src/demo_test.go" "$wt/$pkg/zz_seed_demo_test.go"
( cd "$wt" && go test -vet=off -count=1 -timeout 300s -run "$run" "$pkg" ) > "$wt/.demo_clean.log" 2>&1; clean_rc=$?
( cd "$wt" && patch -p1 -s < "$src/patch.diff" ) || { echo "$name: patch does not apply to HEAD"; exit 2; }
rm -f "$wt/$pkg/zz_seed_demo_test.go"
( cd "$wt" && git diff ) > "$wt/.rebased.diff"
( cd "$wt" && go build ./... ) > "$wt/.build.log" 2>&1; build_rc=$?
( cd "$wt" && go test -vet=off -count=1 -timeout 600s ./... ) > "$wt/.suite.log" 2>&1
suite_fail=$(grep -E "^(FAIL|---.*FAIL|panic)" "$wt/.suite.log" | grep -v "pkg/cgroup" | grep -v "TestCgroupAll" | grep -v "^FAIL$" | head -5)
cp "$src/demo_test.go" "$wt/$pkg/zz_seed_demo_test.go"
( cd "$wt" && go test -vet=off -count=1 -timeout 300s -run "$run" "$pkg" ) > "$wt/.demo_patched.log" 2>&1; patched_rc=$?
ok=1
[ $clean_rc -eq 0 ] || { echo "$name: demo does not pass on the clean tree"; tail -5 "$wt/.demo_clean.log"; ok=0; }
[ $build_rc -eq 0 ] || { echo "$name: patched tree does not build"; ok=0; }
[ -z "$suite_fail" ] || { echo "$name: suite fails with the patch: $suite_fail"; ok=0; }
[ $patched_rc -ne 0 ] || { echo "$name: demo passes with the patch"; ok=0; }
if [ $ok -eq 1 ]; then
  mkdir -p "$V/seeded/$name"
  cp "$wt/.rebased.diff" "$V/seeded/$name/patch.diff"
  cp "$src/demo_test.go" "$V/seeded/$name/demo_test.go"
  python3 - "$src/meta.json" "$V/seeded/$name/meta.json" "$pkg" "$run" <<'PY'
import json,sys
m=json.load(open(sys.argv[1]))
m['demo_pkg']=sys.argv[3]; m['demo_run']=sys.argv[4]
m['confirmed']={'by':'tools/verify_seed.sh in a scratch worktree of /repo HEAD','builds':True,'suite_passes_with_patch':True,'demo_passes_without_patch':True,'demo_fails_with_patch':True}
json.dump(m,open(sys.argv[2],'w'),indent=1)
PY
  echo "$name: confirmed"
fi

#!/bin/sh
# tools/selftest_only.sh <seed> <Cxx> <function-name substring> : like tools/selftest.sh for one seed, but the
# property's registered check is restricted to the functions the patch touches (gocv check --only), which makes a
# round over many seeds affordable. "-" as substring runs the whole check (needed for the bounded stand-ins).
V=$(cd "$(dirname "$0")/.." && pwd)
seed=$1; id=$2; only=$3
p="$V/seeded/$seed/patch.diff"
scr=$(mktemp -d /tmp/gocv-selftest-XXXXXX)
rsync -a --exclude .git "${REPO:-/repo}"/ "$scr"/
if ! (cd "$scr" && patch -p1 -s < "$p"); then echo "SELFTEST $seed: patch does not apply"; rm -rf "$scr"; exit 1; fi
if [ "$only" = "-" ]; then
  out=$(cd "$V" && GOCV_VERIF="$V" GOCV_REPO="$scr" GOCV_EVIDENCE_DIR="$scr/.evidence" GOCV_REPLAY_DIR="$scr/.replays" bin/gocv check --tier quick "$id" 2>&1)
else
  out=$(cd "$V" && GOCV_VERIF="$V" GOCV_REPO="$scr" GOCV_EVIDENCE_DIR="$scr/.evidence" GOCV_REPLAY_DIR="$scr/.replays" bin/gocv check --tier quick --only "$only" "$id" 2>&1)
fi
rc=$?
if [ $rc -eq 1 ] && echo "$out" | grep -q "^VIOLATION property=$id"; then
  echo "SELFTEST $seed: caught ($(echo "$out" | grep -c '^VIOLATION') violation lines) [only=$only]"
  echo "$out" | grep "failed obligation" | head -3
else
  echo "SELFTEST $seed: NOT caught (exit $rc) [only=$only]"; echo "$out" | tail -4
fi
rm -rf "$scr"

package cgroup

// Demonstration for C20 (finding D15): Random must hand back a group this call created. When the
// builder reports that the randomly named group already existed (err == nil, Existing() == true),
// randomBuild has to try another name, like MkdirTemp, instead of returning the existing group.
//   GOFLAGS=-mod=mod go test -vet=off -count=1 -run TestVerifRandomSkipsExistingGroup ./pkg/cgroup/

import (
	"os"
	"path/filepath"
	"testing"
)

func TestVerifRandomSkipsExistingGroup(t *testing.T) {
	parent := &V2{path: t.TempDir(), control: &Controllers{}}
	calls := 0
	build := func(name string) (Cgroup, error) {
		calls++
		v2 := &V2{path: filepath.Join(parent.path, name), control: parent.control}
		if calls == 1 {
			// somebody else owns a group with this name already
			if err := os.Mkdir(v2.path, dirPerm); err != nil {
				return nil, err
			}
		}
		if err := os.Mkdir(v2.path, dirPerm); err != nil {
			if !os.IsExist(err) {
				return nil, err
			}
			v2.existing = true
		}
		return v2, nil
	}
	cg, err := randomBuild("job-*", build)
	if err != nil {
		t.Fatal(err)
	}
	if cg.Existing() {
		t.Fatalf("Random returned a group it did not create (after %d attempt(s)): two callers can end up sharing one group", calls)
	}
}

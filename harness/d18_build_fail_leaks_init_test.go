package container

// Demonstration for C12 (defect D18): (*Builder).Build starts the container init, and when a later step of
// Build fails (here: the temporary root cannot be created) it must kill and reap that init before returning
// the error - no child process of the host may be left behind.
//   GOFLAGS=-mod=mod go test -vet=off -count=1 -run TestVerifFailedBuildLeavesNoChild ./container/

import (
	"os"
	"strconv"
	"strings"
	"testing"
	"time"
)

func verifChildren(t *testing.T) []string {
	self := strconv.Itoa(os.Getpid())
	ents, err := os.ReadDir("/proc")
	if err != nil {
		t.Fatal(err)
	}
	var rt []string
	for _, e := range ents {
		if _, err := strconv.Atoi(e.Name()); err != nil {
			continue
		}
		b, err := os.ReadFile("/proc/" + e.Name() + "/stat")
		if err != nil {
			continue
		}
		s := string(b)
		i := strings.LastIndexByte(s, ')')
		f := strings.Fields(s[i+1:])
		if len(f) > 1 && f[1] == self {
			rt = append(rt, e.Name()+":"+f[0])
		}
	}
	return rt
}

func TestVerifFailedBuildLeavesNoChild(t *testing.T) {
	before := verifChildren(t)
	for i := 0; i < 3; i++ {
		b := &Builder{Root: "/nonexistent-verif-root", TmpRoot: "verif-*"}
		if env, err := b.Build(); err == nil {
			env.Destroy()
			t.Fatal("Build succeeded with a root directory that does not exist")
		}
	}
	time.Sleep(200 * time.Millisecond)
	after := verifChildren(t)
	if len(after) != len(before) {
		t.Fatalf("3 failed Builds: children of the host went from %v to %v (container inits left running)", before, after)
	}
}

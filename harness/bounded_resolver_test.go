package ptrace

// Bounded stand-in for C02 (labelled bounded, never counted as proved): the symlink walk
// resolveTraceePath / absPathAt (trusted in the contracts as rres/kres) is compared with the
// kernel's own resolution on a real directory tree, for every path of up to GOCV_DEPTH components
// (default 4) over a fixed component alphabet, absolute and relative to two bases.
//   follow semantics:   open(path, O_PATH) then readlink(/proc/self/fd/N)
//   nofollow semantics: realpath(parent) + "/" + last component (what lstat/unlink/readlink touch)
// Line protocol on stdout: GOCV-STAT / GOCV-FAIL <key> | <detail> / GOCV-SAMPLE <json>.

import (
	"fmt"
	"os"
	"os/exec"
	"path/filepath"
	"strconv"
	"strings"
	"syscall"
	"testing"
)

func gocvKernelFollow(p string) (string, bool) {
	fd, err := syscall.Open(p, 0x200000 /* O_PATH */ |syscall.O_CLOEXEC, 0)
	if err != nil {
		return "", false
	}
	defer syscall.Close(fd)
	s, err := os.Readlink("/proc/self/fd/" + strconv.Itoa(fd))
	if err != nil {
		return "", false
	}
	return s, true
}

func TestGocvBoundedResolver(t *testing.T) {
	depth := 4
	if v := os.Getenv("GOCV_DEPTH"); v != "" {
		depth, _ = strconv.Atoi(v)
	}
	root, err := filepath.EvalSymlinks(t.TempDir())
	if err != nil {
		t.Fatal(err)
	}
	must := func(err error) {
		if err != nil {
			t.Fatal(err)
		}
	}
	must(os.MkdirAll(filepath.Join(root, "a", "c"), 0755))
	must(os.MkdirAll(filepath.Join(root, "b"), 0755))
	must(os.WriteFile(filepath.Join(root, "a", "f"), []byte("f"), 0644))
	must(os.WriteFile(filepath.Join(root, "b", "g"), []byte("g"), 0644))
	must(os.WriteFile(filepath.Join(root, "a", "c", "h"), []byte("h"), 0644))
	must(os.Symlink("../b", filepath.Join(root, "a", "lb")))             // relative, to a directory
	must(os.Symlink(filepath.Join(root, "a"), filepath.Join(root, "b", "la"))) // absolute, to a directory
	must(os.Symlink("f", filepath.Join(root, "a", "lf")))                // to a file
	must(os.Symlink("../../b/g", filepath.Join(root, "a", "c", "lup")))  // relative, upwards
	must(os.Symlink("a/lb", filepath.Join(root, "l2")))                  // chain
	must(os.Symlink("nowhere", filepath.Join(root, "dangling")))
	links := map[string]bool{"lb": true, "la": true, "lf": true, "lup": true, "l2": true, "dangling": true}
	comps := []string{"a", "b", "c", "f", "g", "h", "lb", "la", "lf", "lup", "l2", "dangling", "new", ".", "..", ""}
	pid := os.Getpid()
	bases := []string{root, filepath.Join(root, "a"), filepath.Join(root, "a", "c")}

	evals, distinct := 0, 0
	failed := map[string]int{}
	samples := 0
	report := func(key, detail string) {
		failed[key]++
		if failed[key] <= 3 {
			fmt.Printf("GOCV-FAIL %s | %s\n", key, detail)
		}
	}
	var seq []string
	var walk func(d int)
	check := func(rel string, cs []string) {
		for bi, base := range bases {
			for _, abs := range []bool{false, true} {
				p := rel
				if abs {
					if bi != 0 {
						continue
					}
					p = root + "/" + rel
				}
				full := p
				if !abs {
					full = base + "/" + p
				}
				// does a ".." come after a symlink component (lexically)?
				sawLink, dotdotAfterLink := false, false
				for _, c := range cs {
					if links[c] {
						sawLink = true
					}
					if c == ".." && sawLink {
						dotdotAfterLink = true
					}
				}
				class := "other"
				if dotdotAfterLink {
					class = "dotdot-after-symlink"
				}
				got := resolveTraceePath(pid, base, p)
				evals++
				if want, ok := gocvKernelFollow(full); ok {
					distinct++
					if got != want {
						key := "C02/resolver/follow/" + class
						if class == "other" {
							key += ":" + strings.TrimPrefix(full, root)
						}
						report(key, fmt.Sprintf("base=%q path=%q: resolver says %q, the kernel opens %q", strings.TrimPrefix(base, root)+"/", strings.Replace(p, root, "$ROOT", 1), strings.Replace(got, root, "$ROOT", 1), strings.Replace(want, root, "$ROOT", 1)))
					} else if samples < 4 && sawLink {
						samples++
						fmt.Printf("GOCV-SAMPLE {\"path\":%q,\"resolved\":%q}\n", strings.TrimPrefix(full, root), strings.TrimPrefix(got, root))
					}
				}
				// nofollow semantics: the object is the last component itself, in the resolved parent
				last := cs[len(cs)-1]
				if last == "" || last == "." || last == ".." {
					continue
				}
				parent := full[:len(full)-len(last)]
				if pw, ok := gocvKernelFollow(parent); ok {
					want := filepath.Join(pw, last)
					if _, err := os.Lstat(parent + last); err != nil && !os.IsNotExist(err) {
						continue
					}
					evals++
					if links[last] {
						if _, err := os.Lstat(parent + last); err == nil && got != want && !dotdotAfterLink {
							report("C02/resolver/nofollow/final-symlink", fmt.Sprintf("path=%q: lstat/readlink/unlink/rename act on %q, the resolver names %q", strings.TrimPrefix(full, root), strings.TrimPrefix(want, root), strings.Replace(got, root, "$ROOT", 1)))
						}
					} else if got != want {
						// existing non-link or to-be-created name: must equal parent + name
						key := "C02/resolver/create/" + class
						if class == "other" {
							key += ":" + strings.TrimPrefix(full, root)
						}
						report(key, fmt.Sprintf("path=%q: resolver says %q, the kernel's object is %q", strings.TrimPrefix(full, root), strings.Replace(got, root, "$ROOT", 1), strings.TrimPrefix(want, root)))
					}
				}
			}
		}
	}
	walk = func(d int) {
		if len(seq) > 0 {
			check(strings.Join(seq, "/"), seq)
		}
		if d == depth {
			return
		}
		for _, c := range comps {
			if c == "" && len(seq) == 0 {
				continue
			}
			seq = append(seq, c)
			walk(d + 1)
			seq = seq[:len(seq)-1]
		}
	}
	walk(0)

	// /proc/self inside a symlink TARGET must mean the tracee, not the tracer: a second process with a
	// different working directory is the tracee here
	must(os.Symlink("/proc/self/cwd", filepath.Join(root, "a", "lself")))
	must(os.Symlink("/proc/self/cwd/g", filepath.Join(root, "lselfg")))
	must(os.Symlink("/proc/thread-self/cwd", filepath.Join(root, "a", "ltself")))
	child := exec.Command("/bin/sleep", "60")
	child.Dir = filepath.Join(root, "b")
	must(child.Start())
	defer func() { child.Process.Kill(); child.Wait() }()
	cpid := child.Process.Pid
	for _, tc := range []struct{ base, p, want string }{
		{root, "a/lself/g", filepath.Join(root, "b", "g")},
		{root, "a/lself", filepath.Join(root, "b")},
		{root, "lselfg", filepath.Join(root, "b", "g")},
		{filepath.Join(root, "a"), "lself/la/f", filepath.Join(root, "a", "f")},
		{root, root + "/a/lself/g", filepath.Join(root, "b", "g")},
		{root, "a/ltself/g", filepath.Join(root, "b", "g")},
	} {
		got := resolveTraceePath(cpid, tc.base, tc.p)
		evals++
		distinct++
		if got != tc.want {
			report("C02/resolver/procself-in-link-target", fmt.Sprintf("tracee pid %d (cwd $ROOT/b), path=%q: resolver says %q, in the tracee it is %q", cpid, strings.Replace(tc.p, root, "$ROOT", 1), strings.Replace(got, root, "$ROOT", 1), strings.Replace(tc.want, root, "$ROOT", 1)))
		}
	}
	for k, n := range failed {
		if n > 3 {
			fmt.Printf("GOCV-SAMPLE {\"failure_class\":%q,\"cases\":%d}\n", k, n)
		}
	}
	fmt.Printf("GOCV-STAT evaluations=%d distinct=%d\n", evals, distinct)
}

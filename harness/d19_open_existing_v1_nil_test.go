package cgroup

// Demonstration for C20 (defect D19): openExistingV1 (OpenExisting on the v1 hierarchy) builds its handle
// and then returns the never-assigned named result: success comes with a nil Cgroup, so the caller has no
// handle on the group it asked for (the first method call on it panics).
//   GOFLAGS=-mod=mod go test -vet=off -count=1 -run TestVerifOpenExistingV1ReturnsHandle ./pkg/cgroup/

import "testing"

func TestVerifOpenExistingV1ReturnsHandle(t *testing.T) {
	// no controller requested: nothing on the file system is touched, the call succeeds
	cg, err := openExistingV1("verif-does-not-matter", &Controllers{})
	if err != nil {
		t.Fatalf("openExistingV1: %v", err)
	}
	if cg == nil {
		t.Fatal("openExistingV1 returned (nil, nil): success without a handle")
	}
	if !cg.Existing() {
		t.Fatal("a handle opened on an existing group must be marked existing")
	}
}

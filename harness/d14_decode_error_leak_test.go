package container

// Demonstration for C19 (finding D14): a datagram that carries descriptors but whose payload does not
// decode is rejected by (*socket).RecvMsg - the descriptors that arrived with it must not stay open.
//   GOFLAGS=-mod=mod go test -vet=off -count=1 -run TestVerifUndecodableMessageDoesNotLeak ./container/

import (
	"os"
	"testing"

	"github.com/criyle/go-sandbox/pkg/unixsocket"
)

func TestVerifUndecodableMessageDoesNotLeak(t *testing.T) {
	a, b, err := unixsocket.NewSocketPair()
	if err != nil {
		t.Fatal(err)
	}
	defer a.Close()
	defer b.Close()
	recv := newSocket(b)
	f, err := os.Open("/dev/null")
	if err != nil {
		t.Fatal(err)
	}
	defer f.Close()
	count := func() int {
		ents, err := os.ReadDir("/proc/self/fd")
		if err != nil {
			t.Fatal(err)
		}
		return len(ents)
	}
	before := count()
	// not a gob stream
	if err := a.SendMsg([]byte{0xff, 0xff, 0xff, 0xff, 0xff, 0xff, 0xff, 0xff}, unixsocket.Msg{Fds: []int{int(f.Fd()), int(f.Fd())}}); err != nil {
		t.Fatal(err)
	}
	var r reply
	m, err := recv.RecvMsg(&r)
	if err == nil {
		t.Fatalf("garbage decoded: %+v", r)
	}
	if len(m.Fds) != 0 {
		t.Fatalf("rejected message still hands out descriptors %v", m.Fds)
	}
	if after := count(); after != before {
		t.Fatalf("rejected message with 2 descriptors: open descriptors went from %d to %d (leak)", before, after)
	}
}

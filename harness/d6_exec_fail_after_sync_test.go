package container

import (
	"context"
	"testing"

	"github.com/criyle/go-sandbox/runner"
)

// exec fails after the host acknowledged the sync (absolute path that does not exist): the call must
// report an error and the environment must stay usable.
func TestVerifExecFailAfterSyncKeepsContainer(t *testing.T) {
	env := getEnv(t, nil)
	defer env.Destroy()
	for i := 0; i < 2; i++ {
		rt := env.Execve(context.TODO(), ExecveParam{
			Args:     []string{"/verif_not_exists_binary"},
			Env:      []string{PathEnv},
			SyncFunc: func(pid int) error { return nil },
		})
		if rt.Status != runner.StatusRunnerError {
			t.Fatalf("exec of a missing binary: got %v", rt)
		}
		if err := env.Ping(); err != nil {
			t.Fatalf("environment unusable after exec failure following sync (round %d): %v", i, err)
		}
	}
}

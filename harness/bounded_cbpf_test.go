package libseccomp

// Bounded stand-in for C01 (labelled bounded, never counted as proved): the cBPF program that
// Builder.Build hands to the kernel (assembled by the dependencies go-seccomp-bpf and x/net/bpf, which
// the contracts only assume) is interpreted by an independent classic-BPF interpreter on seccomp_data
// records and compared with the declared policy:
//   native arch, nr < 0x40000000: ALLOW iff allow-listed, TRACE iff trace-listed, otherwise the default action
//   any other arch tag:           the default action, whatever the number
//   x32 numbers (bit 30 set):     refused (ERRNO|ENOSYS), never allowed or traced
// over a family of policies x {4 arch tags} x a set of syscall numbers (0..GOCV_NRMAX, every listed number
// and its neighbours, x32 aliases of all of them, and 32-bit edge values).

import (
	"encoding/binary"
	"fmt"
	"os"
	"strconv"
	"syscall"
	"testing"

	"github.com/criyle/go-sandbox/pkg/seccomp"
)

const (
	gocvRetKillProcess = 0x80000000
	gocvRetTrace       = 0x7ff00000
	gocvRetErrno       = 0x00050000
	gocvRetAllow       = 0x7fff0000
	gocvArchX8664      = 0xC000003E
)

// gocvRunBPF interprets a classic BPF program on a 64-byte seccomp_data record.
func gocvRunBPF(prog seccomp.Filter, data []byte) (uint32, error) {
	var a, x uint32
	var mem [16]uint32
	pc := 0
	for steps := 0; steps < 100000; steps++ {
		if pc < 0 || pc >= len(prog) {
			return 0, fmt.Errorf("pc %d out of program (len %d)", pc, len(prog))
		}
		in := prog[pc]
		pc++
		switch in.Code {
		case 0x20: // ld [k] (word, absolute)
			if int(in.K)+4 > len(data) {
				return 0, fmt.Errorf("load beyond seccomp_data: %d", in.K)
			}
			a = binary.LittleEndian.Uint32(data[in.K:])
		case 0x00: // ld #k
			a = in.K
		case 0x01: // ldx #k
			x = in.K
		case 0x60: // ld M[k]
			a = mem[in.K&15]
		case 0x61:
			x = mem[in.K&15]
		case 0x02:
			mem[in.K&15] = a
		case 0x03:
			mem[in.K&15] = x
		case 0x07: // tax
			x = a
		case 0x87: // txa
			a = x
		case 0x54: // and #k
			a &= in.K
		case 0x44:
			a |= in.K
		case 0x74:
			a >>= in.K
		case 0x64:
			a <<= in.K
		case 0x05: // ja
			pc += int(in.K)
		case 0x15: // jeq #k
			if a == in.K {
				pc += int(in.Jt)
			} else {
				pc += int(in.Jf)
			}
		case 0x25: // jgt
			if a > in.K {
				pc += int(in.Jt)
			} else {
				pc += int(in.Jf)
			}
		case 0x35: // jge
			if a >= in.K {
				pc += int(in.Jt)
			} else {
				pc += int(in.Jf)
			}
		case 0x45: // jset
			if a&in.K != 0 {
				pc += int(in.Jt)
			} else {
				pc += int(in.Jf)
			}
		case 0x06: // ret #k
			return in.K, nil
		case 0x16: // ret a
			return a, nil
		default:
			return 0, fmt.Errorf("opcode %#x not modelled by the interpreter", in.Code)
		}
	}
	return 0, fmt.Errorf("program does not terminate")
}

// syscall numbers from the Go standard library's table (independent of the table the builder uses)
var gocvNr = map[string]uint32{"read": syscall.SYS_READ, "write": syscall.SYS_WRITE, "close": syscall.SYS_CLOSE, "fstat": syscall.SYS_FSTAT,
	"mmap": syscall.SYS_MMAP, "munmap": syscall.SYS_MUNMAP, "brk": syscall.SYS_BRK, "exit_group": syscall.SYS_EXIT_GROUP,
	"rt_sigreturn": syscall.SYS_RT_SIGRETURN, "arch_prctl": syscall.SYS_ARCH_PRCTL, "openat": syscall.SYS_OPENAT, "execve": syscall.SYS_EXECVE,
	"unlink": syscall.SYS_UNLINK, "readlink": syscall.SYS_READLINK, "access": syscall.SYS_ACCESS}

func TestGocvBoundedCBPF(t *testing.T) {
	nrMax := 460
	if v := os.Getenv("GOCV_NRMAX"); v != "" {
		nrMax, _ = strconv.Atoi(v)
	}
	namesA := []string{"read", "write", "close", "fstat", "mmap", "munmap", "brk", "exit_group", "rt_sigreturn", "arch_prctl"}
	namesT := []string{"openat", "execve", "unlink", "readlink", "access"}
	type pol struct {
		allow, trace []string
		def          Action
	}
	var pols []pol
	defs := []Action{0, ActionKill, ActionAllow, ActionTrace, ActionErrno, ActionTrace | Action(uint32(MsgDisallow)<<16), 77}
	for _, d := range defs {
		pols = append(pols,
			pol{nil, nil, d},
			pol{namesA[:2], nil, d},
			pol{nil, namesT[:2], d},
			pol{namesA, namesT, d},
			pol{namesA[:1], namesT[4:], d},
		)
	}
	expectDefault := func(d Action) uint32 {
		switch d.Action() {
		case ActionAllow:
			return gocvRetAllow
		case ActionErrno:
			return gocvRetErrno
		case ActionTrace:
			return gocvRetTrace
		}
		return gocvRetKillProcess // unset and unknown actions fail closed
	}
	evals, distinct := 0, 0
	failed := map[string]int{}
	report := func(class, detail string) {
		failed[class]++
		if failed[class] <= 2 {
			fmt.Printf("GOCV-FAIL %s | %s\n", class, detail)
		}
	}
	for _, p := range pols {
		f, err := (&Builder{Allow: p.allow, Trace: p.trace, Default: p.def}).Build()
		if err != nil {
			report("C01/cbpf/build-error", fmt.Sprintf("allow=%v trace=%v default=%#x: %v", p.allow, p.trace, uint32(p.def), err))
			continue
		}
		allowNr, traceNr := map[uint32]bool{}, map[uint32]bool{}
		for _, n := range p.allow {
			nr, ok := gocvNr[n]
			if !ok {
				t.Fatalf("no number for %s", n)
			}
			allowNr[nr] = true
		}
		for _, n := range p.trace {
			nr, ok := gocvNr[n]
			if !ok {
				t.Fatalf("no number for %s", n)
			}
			traceNr[nr] = true
		}
		var nrs []uint32
		for i := 0; i <= nrMax; i++ {
			nrs = append(nrs, uint32(i), uint32(i)|0x40000000)
		}
		nrs = append(nrs, 0x7fffffff, 0x80000000, 0xffffffff, 0x40000000, 0x3fffffff, 0xfffffffe, 1<<16, 1<<24)
		for _, arch := range []uint32{gocvArchX8664, 0x40000003 /* i386 */, 0xC00000B7 /* aarch64 */, 0} {
			for _, nr := range nrs {
				var data [64]byte
				binary.LittleEndian.PutUint32(data[0:], nr)
				binary.LittleEndian.PutUint32(data[4:], arch)
				got, err := gocvRunBPF(f, data[:])
				evals++
				if err != nil {
					report("C01/cbpf/interpreter", err.Error())
					continue
				}
				var want uint32
				kind := "default"
				switch {
				case arch != gocvArchX8664:
					want = expectDefault(p.def)
					kind = "foreign-arch"
				case nr >= 0x40000000:
					kind = "x32"
					if got == gocvRetAllow || got == gocvRetTrace {
						want = gocvRetErrno | uint32(syscall.ENOSYS)
					} else {
						want = got // refused in any way: errno or kill
					}
					if got&0xffff0000 != gocvRetErrno && got != gocvRetKillProcess {
						want = gocvRetErrno | uint32(syscall.ENOSYS)
					}
				case allowNr[nr]:
					want = gocvRetAllow
					kind = "allow-listed"
					distinct++
				case traceNr[nr]:
					want = gocvRetTrace
					kind = "trace-listed"
					distinct++
				default:
					want = expectDefault(p.def)
				}
				ok := got == want
				if kind == "trace-listed" || (kind != "x32" && want == gocvRetTrace) {
					ok = got&0xffff0000 == gocvRetTrace // SECCOMP_RET_DATA may carry a message
				}
				if kind != "x32" && want == gocvRetErrno {
					ok = got&0xffff0000 == gocvRetErrno
				}
				if !ok {
					report("C01/cbpf/"+kind, fmt.Sprintf("allow=%v trace=%v default=%#x arch=%#x nr=%#x: filter returns %#x, policy says %#x", p.allow, p.trace, uint32(p.def), arch, nr, got, want))
				}
			}
		}
	}
	for k, n := range failed {
		fmt.Printf("GOCV-SAMPLE {\"failure_class\":%q,\"cases\":%d}\n", k, n)
	}
	fmt.Printf("GOCV-SAMPLE {\"policies\":%d}\n", len(pols))
	fmt.Printf("GOCV-STAT evaluations=%d distinct=%d\n", evals, distinct)
}

package cgroup

// Demonstration for C20 (finding D10): of several concurrent creators of the same group directory,
// exactly one may be told that it created it (nil); every other one must get os.ErrExist, otherwise two
// handles both believe they own the group and either of them destroys the other's.
//   GOFLAGS=-mod=mod go test -vet=off -count=1 -run TestVerifEnsureDirExistsOneCreator ./pkg/cgroup/

import (
	"path/filepath"
	"sync"
	"testing"
)

func TestVerifEnsureDirExistsOneCreator(t *testing.T) {
	base := t.TempDir()
	const rounds, workers = 300, 8
	bad := 0
	for r := 0; r < rounds; r++ {
		p := filepath.Join(base, "g", "r"+string(rune('a'+r%26)), "x", string(rune('a'+r/26%26))+string(rune('a'+r%26))+"q")
		p = filepath.Join(p, "leaf")
		var wg sync.WaitGroup
		start := make(chan struct{})
		res := make([]error, workers)
		for w := 0; w < workers; w++ {
			wg.Add(1)
			go func(w int) {
				defer wg.Done()
				<-start
				res[w] = EnsureDirExists(p)
			}(w)
		}
		close(start)
		wg.Wait()
		creators := 0
		for _, e := range res {
			if e == nil {
				creators++
			}
		}
		if creators != 1 {
			bad++
			if bad <= 3 {
				t.Logf("round %d: %d of %d concurrent callers were told they created %s", r, creators, workers, p)
			}
		}
	}
	if bad > 0 {
		t.Fatalf("%d of %d rounds had a number of creators different from one", bad, rounds)
	}
}

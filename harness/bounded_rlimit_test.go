package rlimit

// Bounded stand-in for C08 (labelled bounded, never counted as proved): RLimits.PrepareRLimit against an
// independently written table - one entry per configured (non-zero) resource, in the order CPU, DATA,
// FSIZE, STACK, AS, NOFILE, CORE, each with exactly the configured soft and hard values (CPU hard =
// max(CPUHard, CPU)) - for every combination of field values drawn from {0, 1, 7, 2^63, 2^64-1}.

import (
	"fmt"
	"syscall"
	"testing"
)

func TestGocvBoundedRLimit(t *testing.T) {
	vals := []uint64{0, 1, 7, 1 << 63, ^uint64(0)}
	evals, distinct, bad := 0, 0, 0
	type ent struct {
		res      int
		cur, max uint64
	}
	for _, cpu := range vals {
		for _, hard := range vals {
			for _, data := range vals {
				for _, fsize := range vals {
					for _, stack := range vals {
						for _, as := range vals {
							for _, nofile := range vals {
								for _, core := range []bool{false, true} {
									r := RLimits{CPU: cpu, CPUHard: hard, Data: data, FileSize: fsize, Stack: stack, AddressSpace: as, OpenFile: nofile, DisableCore: core}
									var want []ent
									if cpu > 0 {
										h := hard
										if h < cpu {
											h = cpu
										}
										want = append(want, ent{syscall.RLIMIT_CPU, cpu, h})
									}
									for _, e := range []ent{{syscall.RLIMIT_DATA, data, data}, {syscall.RLIMIT_FSIZE, fsize, fsize}, {syscall.RLIMIT_STACK, stack, stack}, {syscall.RLIMIT_AS, as, as}, {syscall.RLIMIT_NOFILE, nofile, nofile}} {
										if e.cur > 0 {
											want = append(want, e)
										}
									}
									if core {
										want = append(want, ent{syscall.RLIMIT_CORE, 0, 0})
									}
									got := r.PrepareRLimit()
									evals++
									if len(want) > 0 {
										distinct++
									}
									ok := len(got) == len(want)
									for i := 0; ok && i < len(got); i++ {
										ok = got[i].Res == want[i].res && got[i].Rlim.Cur == want[i].cur && got[i].Rlim.Max == want[i].max
									}
									if !ok {
										bad++
										if bad <= 3 {
											fmt.Printf("GOCV-FAIL C08/rlimit/table | %+v: PrepareRLimit = %v, configured table = %v\n", r, got, want)
										}
									}
								}
							}
						}
					}
				}
			}
		}
	}
	if bad > 3 {
		fmt.Printf("GOCV-SAMPLE {\"failure_class\":\"C08/rlimit/table\",\"cases\":%d}\n", bad)
	}
	fmt.Printf("GOCV-STAT evaluations=%d distinct=%d\n", evals, distinct)
}

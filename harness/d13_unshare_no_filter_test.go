package unshare

// Demonstration for C04 (finding D13): "a seccomp filter installed if and only if one was given" - a
// Runner without a filter must start the program without one; it must not crash in the launcher.
//   GOFLAGS=-mod=mod go test -vet=off -count=1 -run TestVerifRunWithoutFilter ./runner/unshare/

import (
	"context"
	"testing"
	"time"

	"github.com/criyle/go-sandbox/runner"
)

func TestVerifRunWithoutFilter(t *testing.T) {
	defer func() {
		if r := recover(); r != nil {
			t.Fatalf("Run without a seccomp filter panicked in the launcher: %v", r)
		}
	}()
	r := &Runner{
		Args:    []string{"/bin/true"},
		Env:     []string{"PATH=/usr/bin:/bin"},
		WorkDir: "/",
		Files:   []uintptr{0, 1, 2},
		Limit:   runner.Limit{TimeLimit: 10 * time.Second, MemoryLimit: runner.Size(1 << 30)},
	}
	ctx, cancel := context.WithTimeout(context.Background(), 20*time.Second)
	defer cancel()
	res := r.Run(ctx)
	if res.Status != runner.StatusNormal {
		t.Fatalf("/bin/true without a filter: %v %q", res.Status, res.Error)
	}
}

package filehandler

// Bounded stand-in for C18 (labelled bounded, never counted as proved): FileSet.IsInSetSmart is compared
// with the documented cover relation on every cleaned absolute path over components {a,b} up to
// GOCV_DEPTH levels (default 4), plus "" (unresolvable name) and "/", against every set of one or two
// entries drawn from {d, d/, d/*} for every directory d up to depth 3 (d = "" is the root).
//   cover(S, p) = p in S  or  some d/ in S with p == d or p below d  or  some d/* in S with p a direct child of d

import (
	"fmt"
	"os"
	"strconv"
	"strings"
	"testing"
)

func gocvCover(entries []string, p string) bool {
	for _, e := range entries {
		switch {
		case e == p:
			return true
		case strings.HasSuffix(e, "/*"):
			d := strings.TrimSuffix(e, "/*")
			if strings.HasPrefix(p, d+"/") {
				rest := p[len(d)+1:]
				if rest != "" && !strings.Contains(rest, "/") {
					return true
				}
			}
		case strings.HasSuffix(e, "/"):
			d := strings.TrimSuffix(e, "/")
			if p == d || strings.HasPrefix(p, d+"/") {
				return true
			}
		}
	}
	return false
}

func TestGocvBoundedFileSet(t *testing.T) {
	depth := 4
	if v := os.Getenv("GOCV_DEPTH"); v != "" {
		depth, _ = strconv.Atoi(v)
	}
	var dirs []string
	var gen func(prefix string, d int, max int, out *[]string)
	gen = func(prefix string, d int, max int, out *[]string) {
		*out = append(*out, prefix)
		if d == max {
			return
		}
		for _, c := range []string{"a", "b"} {
			gen(prefix+"/"+c, d+1, max, out)
		}
	}
	gen("", 0, 3, &dirs)
	var names []string
	gen("", 0, depth, &names)
	names[0] = "" // the empty path
	names = append(names, "/")
	var pool []string
	for _, d := range dirs {
		if d != "" {
			pool = append(pool, d)
		}
		pool = append(pool, d+"/", d+"/*")
	}
	evals, distinct := 0, 0
	failed := map[string]int{}
	check := func(entries []string) {
		fs := NewFileSet()
		for _, e := range entries {
			fs.Set[e] = true
		}
		for _, p := range names {
			got := fs.IsInSetSmart(p)
			want := gocvCover(entries, p)
			evals++
			if want {
				distinct++
			}
			if got != want {
				key := fmt.Sprintf("C18/fileset/%v-covers-%q", entries, p)
				class := "C18/fileset/other"
				switch {
				case p == "" && got:
					class = "C18/fileset/empty-path-admitted"
				case p == "/" && got:
					class = "C18/fileset/root-admitted"
				case got:
					class = "C18/fileset/admits-uncovered"
				default:
					class = "C18/fileset/refuses-covered"
				}
				failed[class]++
				if failed[class] <= 2 {
					fmt.Printf("GOCV-FAIL %s | set %q, path %q: IsInSetSmart = %v, documented cover relation = %v (%s)\n", class, entries, p, got, want, key)
				}
			}
		}
	}
	for i := range pool {
		check([]string{pool[i]})
		for j := i + 1; j < len(pool); j++ {
			check([]string{pool[i], pool[j]})
		}
	}
	for k, n := range failed {
		fmt.Printf("GOCV-SAMPLE {\"failure_class\":%q,\"cases\":%d}\n", k, n)
	}
	fmt.Printf("GOCV-STAT evaluations=%d distinct=%d\n", evals, distinct)
}

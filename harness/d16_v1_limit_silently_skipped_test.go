package cgroup

// Demonstration for C20 (finding D16): "limits written are the limits in force" - on the v1 hierarchy a
// limit call on a group whose controller was never set up returns nil although nothing was written
// (v2 returns ErrNotInitialized in the same situation).
//   GOFLAGS=-mod=mod go test -vet=off -count=1 -run TestVerifV1LimitWithoutControllerIsReported ./pkg/cgroup/

import "testing"

func TestVerifV1LimitWithoutControllerIsReported(t *testing.T) {
	c := &V1{prefix: "x"} // no memory / pids controller
	if err := c.SetMemoryLimit(64 << 20); err == nil {
		t.Errorf("SetMemoryLimit on a group without a memory controller returned nil: the limit is not in force")
	}
	if err := c.SetProcLimit(4); err == nil {
		t.Errorf("SetProcLimit on a group without a pids controller returned nil: the limit is not in force")
	}
}

package unixsocket

// Demonstration for C19/C12 (finding D9): a message that arrives with descriptors but does not fit the
// receive buffer is rejected (errMessageTruncated) - the descriptors the kernel already installed must
// not stay open in the receiver. Injected with -overlay into pkg/unixsocket:
//   GOFLAGS=-mod=mod go test -vet=off -count=1 -run TestVerifTruncatedMessageDoesNotLeak ./pkg/unixsocket/

import (
	"os"
	"testing"
)

func verifCountFds(t *testing.T) int {
	ents, err := os.ReadDir("/proc/self/fd")
	if err != nil {
		t.Fatal(err)
	}
	return len(ents)
}

func TestVerifTruncatedMessageDoesNotLeak(t *testing.T) {
	a, b, err := NewSocketPair()
	if err != nil {
		t.Fatal(err)
	}
	defer a.Close()
	defer b.Close()
	f, err := os.Open("/dev/null")
	if err != nil {
		t.Fatal(err)
	}
	defer f.Close()
	before := verifCountFds(t)
	const rounds = 5
	for i := 0; i < rounds; i++ {
		if err := a.SendMsg(make([]byte, 64), Msg{Fds: []int{int(f.Fd()), int(f.Fd())}}); err != nil {
			t.Fatal(err)
		}
		_, m, err := b.RecvMsg(make([]byte, 8)) // payload does not fit: MSG_TRUNC
		if err == nil {
			t.Fatalf("truncated message was delivered: %v", m)
		}
		if len(m.Fds) != 0 {
			t.Fatalf("rejected message still hands out descriptors: %v", m.Fds)
		}
	}
	if after := verifCountFds(t); after != before {
		t.Fatalf("%d rejected messages with 2 descriptors each: open descriptors went from %d to %d (leak)", rounds, before, after)
	}
}

package ptrace

// Demonstration for C15/C04 (finding D17): a ptrace Runner without a seccomp filter must not crash the caller
// (the state before fix D13) and must not leave the tracer waiting for stops that never come (the state
// after D13 alone): it reports Runner Error at once.
//   GOFLAGS=-mod=mod go test -vet=off -count=1 -run TestVerifPtraceRunnerWithoutFilter ./runner/ptrace/

import (
	"context"
	"testing"
	"time"

	"github.com/criyle/go-sandbox/ptracer"
	"github.com/criyle/go-sandbox/runner"
)

type nfHandler struct{}

func (nfHandler) CheckRead(string) ptracer.TraceAction    { return ptracer.TraceAllow }
func (nfHandler) CheckWrite(string) ptracer.TraceAction   { return ptracer.TraceAllow }
func (nfHandler) CheckStat(string) ptracer.TraceAction    { return ptracer.TraceAllow }
func (nfHandler) CheckSyscall(string) ptracer.TraceAction { return ptracer.TraceAllow }

func TestVerifPtraceRunnerWithoutFilter(t *testing.T) {
	for _, args := range [][]string{{"/bin/true"}, {"/bin/sh", "-c", "/bin/ls / >/dev/null; /bin/true"}} {
		r := &Runner{Args: args, Env: []string{"PATH=/usr/bin:/bin"}, WorkDir: "/", Files: []uintptr{0, 1, 2},
			Limit: runner.Limit{TimeLimit: 5 * time.Second, MemoryLimit: runner.Size(1 << 30)}, Handler: nfHandler{}}
		ctx, cancel := context.WithTimeout(context.Background(), 8*time.Second)
		t0 := time.Now()
		res := r.Run(ctx)
		cancel()
		if d := time.Since(t0); d > 3*time.Second {
			t.Errorf("%v: the run only ended after %v (the tracer waited for stops that never come)", args, d)
		}
		if res.Status != runner.StatusRunnerError || res.Error == "" {
			t.Errorf("%v: %v %q: a runner that cannot trace must say so", args, res.Status, res.Error)
		}
	}
}

package ptrace

// Demonstration for C02 (findings D2, D3): the path presented to the policy for
//   (a) openat with AT_FDCWD passed as a zero-extended 32-bit value (0x00000000ffffff9c), which the
//       kernel reads as the C int -100, and
//   (b) symlinkat(target, newdirfd, linkpath), whose directory descriptor and path are arguments 1 and 2,
// must be the path the kernel resolves. Injected with -overlay into runner/ptrace:
//   GOFLAGS=-mod=mod go test -vet=off -count=1 -run TestVerifDirfdDecode ./runner/ptrace/

import (
	"context"
	"os"
	"os/exec"
	"path/filepath"
	"sync"
	"testing"
	"time"

	"github.com/criyle/go-sandbox/pkg/seccomp/libseccomp"
	"github.com/criyle/go-sandbox/ptracer"
	"github.com/criyle/go-sandbox/runner"
)

const verifDirfdTraceeSrc = `
#define _GNU_SOURCE
#include <fcntl.h>
#include <sys/syscall.h>
#include <unistd.h>
int main(void) {
	long fd = syscall(SYS_openat, 0xffffff9cUL, "rel.txt", O_RDONLY);
	if (fd < 0) return 10;
	close(fd);
	int d = open("sub", O_RDONLY | O_DIRECTORY);
	if (d < 0) return 11;
	if (syscall(SYS_symlinkat, "target", (long)d, "lnk") != 0) return 12;
	return 0;
}
`

type verifRecorder struct {
	mu     sync.Mutex
	reads  []string
	writes []string
}

func (r *verifRecorder) CheckRead(p string) ptracer.TraceAction {
	r.mu.Lock()
	r.reads = append(r.reads, p)
	r.mu.Unlock()
	return ptracer.TraceAllow
}
func (r *verifRecorder) CheckWrite(p string) ptracer.TraceAction {
	r.mu.Lock()
	r.writes = append(r.writes, p)
	r.mu.Unlock()
	return ptracer.TraceAllow
}
func (r *verifRecorder) CheckStat(string) ptracer.TraceAction    { return ptracer.TraceAllow }
func (r *verifRecorder) CheckSyscall(string) ptracer.TraceAction { return ptracer.TraceAllow }

func TestVerifDirfdDecode(t *testing.T) {
	gcc, err := exec.LookPath("gcc")
	if err != nil {
		t.Skip("gcc not available")
	}
	build := t.TempDir()
	src := filepath.Join(build, "tracee.c")
	bin := filepath.Join(build, "tracee")
	if err := os.WriteFile(src, []byte(verifDirfdTraceeSrc), 0644); err != nil {
		t.Fatal(err)
	}
	if out, err := exec.Command(gcc, "-O0", "-static", "-o", bin, src).CombinedOutput(); err != nil {
		if out, err = exec.Command(gcc, "-O0", "-o", bin, src).CombinedOutput(); err != nil {
			t.Fatalf("gcc: %v\n%s", err, out)
		}
	}
	filter, err := (&libseccomp.Builder{
		Allow:   []string{"getpid"},
		Trace:   []string{"symlinkat"},
		Default: libseccomp.ActionAllow,
	}).Build()
	if err != nil {
		t.Fatal(err)
	}
	// trace openat only for the probe: the loader's own openat calls are recorded too, which is fine
	filter, err = (&libseccomp.Builder{
		Allow:   []string{"getpid"},
		Trace:   []string{"symlinkat", "openat"},
		Default: libseccomp.ActionAllow,
	}).Build()
	if err != nil {
		t.Fatal(err)
	}
	dir, err := filepath.EvalSymlinks(t.TempDir())
	if err != nil {
		t.Fatal(err)
	}
	if err := os.WriteFile(filepath.Join(dir, "rel.txt"), []byte("x"), 0644); err != nil {
		t.Fatal(err)
	}
	if err := os.Mkdir(filepath.Join(dir, "sub"), 0755); err != nil {
		t.Fatal(err)
	}
	rec := &verifRecorder{}
	r := &Runner{
		Args:    []string{bin},
		Env:     []string{"PATH=/usr/bin:/bin"},
		WorkDir: dir,
		Files:   []uintptr{0, 1, 2},
		Limit:   runner.Limit{TimeLimit: 10 * time.Second, MemoryLimit: runner.Size(1 << 30)},
		Seccomp: filter,
		Handler: rec,
	}
	ctx, cancel := context.WithTimeout(context.Background(), 20*time.Second)
	defer cancel()
	res := r.Run(ctx)
	if res.Status != runner.StatusNormal || res.ExitStatus != 0 {
		t.Fatalf("tracee: %v exit %d %q", res.Status, res.ExitStatus, res.Error)
	}
	has := func(l []string, want string) bool {
		for _, s := range l {
			if s == want {
				return true
			}
		}
		return false
	}
	if want := filepath.Join(dir, "rel.txt"); !has(rec.reads, want) {
		t.Errorf("openat(AT_FDCWD as 0xffffff9c, \"rel.txt\"): policy was never asked about %s; read queries: %q", want, rec.reads)
	}
	if want := filepath.Join(dir, "sub", "lnk"); !has(rec.writes, want) {
		t.Errorf("symlinkat(\"target\", fd(sub), \"lnk\"): policy was never asked about %s; write queries: %q", want, rec.writes)
	}
}

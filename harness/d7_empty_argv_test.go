package container

import (
	"context"
	"testing"

	"github.com/criyle/go-sandbox/runner"
)

// Empty argument list: the call must fail with an error of that call and the environment stay usable.
func TestVerifEmptyArgvKeepsContainer(t *testing.T) {
	env := getEnv(t, nil)
	defer env.Destroy()
	rt := env.Execve(context.TODO(), ExecveParam{Args: nil, Env: []string{PathEnv}})
	if rt.Status != runner.StatusRunnerError {
		t.Fatalf("empty argv: got %v", rt)
	}
	if err := env.Ping(); err != nil {
		t.Fatalf("environment unusable after empty argv: %v", err)
	}
}

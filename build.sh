#!/bin/sh
# Builds bin/gocv offline with go1.26.8 + golang.org/x/tools v0.50.0 (module cache only).
set -e
cd "$(dirname "$0")/gocv"
export GOFLAGS=-mod=mod GOPROXY=off GOSUMDB=off GOTOOLCHAIN=local PATH=/opt/veriftools/go1.26.8/bin:$PATH
mkdir -p ../bin
go build -o ../bin/gocv .
